// sync/atomic: typed atomics (atomic.Int32, atomic.Bool, atomic.Pointer[T], atomic.Value ...)
// and the plain functions, as engine intrinsics: a visible operation on the address followed
// by an indivisible read-modify-write; acquire+release on the address's vector clock.
package main

import (
	"go/types"
	"regexp"
	"strings"

	"golang.org/x/tools/go/ssa"
)

var atomicMethodRe = regexp.MustCompile(`^\(\*sync/atomic\.(Bool|Int32|Int64|Uint32|Uint64|Uintptr|Pointer\[.*\]|Value)\)\.(Load|Store|Swap|CompareAndSwap|Add|And|Or)$`)
var atomicFuncRe = regexp.MustCompile(`^sync/atomic\.(Load|Store|Swap|CompareAndSwap|Add|And|Or)(Int32|Int64|Uint32|Uint64|Uintptr|Pointer)$`)

type atomicClock struct{ vc vclock }

func (i *interpreter) atomicSync(addr *value) {
	if !i.threaded() {
		return
	}
	if i.atomics == nil {
		i.atomics = map[*value]*atomicClock{}
	}
	c := i.atomics[addr]
	if c == nil {
		c = &atomicClock{}
		i.atomics[addr] = c
	}
	i.yield("atomic", c)
	i.acqRel(&c.vc)
}

func atomicExternal(i *interpreter, fn *ssa.Function, name string) externalFn {
	if !strings.Contains(name, "sync/atomic.") {
		return nil
	}
	if m := atomicMethodRe.FindStringSubmatch(name); m != nil {
		typ, op := m[1], m[2]
		return func(fr *frame, a []value) value {
			recv := a[0].(*value)
			if recv == nil {
				panic(runtimeError("invalid memory address or nil pointer dereference"))
			}
			st := (*recv).(structure)
			slot := &st[len(st)-1] // the value field `v` is the last field of every typed atomic
			fr.i.atomicSync(slot)
			isBool := typ == "Bool"
			get := func() value {
				if isBool {
					return (*slot).(uint32) != 0
				}
				return *slot
			}
			put := func(v value) {
				if isBool {
					if v.(bool) {
						*slot = uint32(1)
					} else {
						*slot = uint32(0)
					}
					return
				}
				*slot = v
			}
			return atomicOp(fr.i, op, fn, get, put, a[1:])
		}
	}
	if m := atomicFuncRe.FindStringSubmatch(name); m != nil {
		op := m[1]
		return func(fr *frame, a []value) value {
			addr := a[0].(*value)
			if addr == nil {
				panic(runtimeError("invalid memory address or nil pointer dereference"))
			}
			fr.i.atomicSync(addr)
			return atomicOp(fr.i, op, fn, func() value { return *addr }, func(v value) { *addr = v }, a[1:])
		}
	}
	return nil
}

func atomicOp(i *interpreter, op string, fn *ssa.Function, get func() value, put func(value), args []value) value {
	switch op {
	case "Load":
		return get()
	case "Store":
		put(args[0])
		return nil
	case "Swap":
		old := get()
		put(args[0])
		return old
	case "CompareAndSwap":
		t := fn.Signature.Params().At(fn.Signature.Params().Len() - 1).Type()
		if i.truth(equalsV(i, t, get(), args[0])) {
			put(args[1])
			return true
		}
		return false
	case "Add":
		t := fn.Signature.Params().At(fn.Signature.Params().Len() - 1).Type()
		nv := binop(i, tokenADD, t, t, get(), args[0])
		put(nv)
		return nv
	}
	i.abort(abUnsupported, "sync/atomic operation "+op)
	return nil
}

var _ = types.Typ
