// `gosymex check`: run the registered harnesses of a property, confirm candidate
// counterexamples natively, validate sampled paths against the real build, write evidence.
package main

import (
	"encoding/json"
	"flag"
	"fmt"
	"os"
	"path/filepath"
	"sort"
	"strconv"
	"strings"
	"time"
)

type knownFile struct {
	Findings []struct {
		ID       string `json:"id"`
		Property string `json:"property"`
		Harness  string `json:"harness"`
		What     string `json:"what"`
	} `json:"findings"`
	Fixed []string `json:"fixed"`
}

func loadKnown() *knownFile {
	kf := &knownFile{}
	b, err := os.ReadFile(filepath.Join(verifDir(), "known_findings.json"))
	if err == nil {
		json.Unmarshal(b, kf)
	}
	return kf
}

func cmdCheck(args []string) int {
	fs := flag.NewFlagSet("check", flag.ExitOnError)
	prop := fs.String("property", "", "property id (C01..C20)")
	tierS := fs.String("tier", "", "quick|thorough (default: $VERIF_TIER or quick)")
	only := fs.String("only", "", "run only the harness with this function name (debugging; no evidence written)")
	workers := fs.Int("workers", 16, "worker count")
	fs.Parse(args)
	if *tierS == "" {
		*tierS = os.Getenv("VERIF_TIER")
	}
	if *tierS == "" {
		*tierS = "quick"
	}
	tier := 0
	if *tierS == "thorough" {
		tier = 1
	}
	seed := int64(0)
	if s := os.Getenv("VERIF_SEED"); s != "" {
		seed, _ = strconv.ParseInt(s, 10, 64)
	}
	ps, ok := registry[*prop]
	if !ok {
		fmt.Fprintf(os.Stderr, "no checks registered for property %q\n", *prop)
		return 2
	}
	start := time.Now()
	known := loadKnown()
	progs := map[string]*loadedProgram{}
	var results []*harnessResult
	var notRun []string
	exit := 0
	for _, hs := range ps.Harnesses {
		if *only != "" && hs.Func != *only {
			continue
		}
		if hs.ThoroughOnly && tier == 0 {
			continue
		}
		lp := progs[hs.Pkg]
		if lp == nil {
			var err error
			lp, err = loadProgram(hs.Pkg)
			if err != nil {
				fmt.Fprintf(os.Stderr, "cannot load %s from %s: %v\n", hs.Pkg, repoDir(), err)
				return 2
			}
			progs[hs.Pkg] = lp
		}
		if !lp.hasHarness(hs.Func) {
			fmt.Printf("NOT-RUN harness %s/%s: its source file does not compile against this tree (stale harness, see HARNESS-STALE above); nothing is claimed for it\n", hs.Pkg, hs.Func)
			notRun = append(notRun, hs.Pkg+"."+hs.Func)
			continue
		}
		cfg := &harnessCfg{Prop: ps.ID, Pkg: hs.Pkg, Func: hs.Func, Tier: tier, StepBudget: 4000000, DecBudget: 6000,
			concLimit: 64, Timeout: 45 * time.Second, Workers: *workers, FP: hs.FP}
		if tier == 1 {
			cfg.concLimit = 256
			cfg.Timeout = 120 * time.Second
			cfg.StepBudget = 20000000
		}
		if hs.Steps > 0 {
			cfg.StepBudget = hs.Steps
		}
		if hs.Conc > 0 {
			cfg.concLimit = hs.Conc
		}
		cfg.seed = seed
		cfg.TimeBudget = 8 * time.Minute
		if tier == 1 {
			cfg.TimeBudget = 25 * time.Minute
		}
		cfg.Stall = hs.Stall
		cfg.TimeFixed = hs.TimeFixed
		cfg.TimersMayFire = hs.TimersMayFire
		cfg.SymAddr = hs.SymAddr
		if hs.Stall && hs.Steps == 0 {
			cfg.StepBudget = 600000
		}
		res := runHarness(cfg, lp)
		res.Spec = hs
		printResult(res)
		results = append(results, res)
	}
	// Native confirmation of candidates and differential validation of sampled paths.
	type agg struct {
		reproduced, mismatched, validated, valMismatch int
	}
	var a agg
	violations := 0
	knownPrinted := map[string]bool{}
	replayDir := filepath.Join(verifDir(), "replays")
	os.MkdirAll(replayDir, 0o755)
	byPkg := map[string][]*harnessResult{}
	for _, r := range results {
		byPkg[r.Cfg.Pkg] = append(byPkg[r.Cfg.Pkg], r)
	}
	pkgs := make([]string, 0, len(byPkg))
	for p := range byPkg {
		pkgs = append(pkgs, p)
	}
	sort.Strings(pkgs)
	var notes []string
	for _, n := range notRun {
		notes = append(notes, "harness not run (stale against this tree): "+n)
	}
	replayBroken := false
	for _, pkg := range pkgs {
		var cases []nativeCase
		type ref struct {
			res  *harnessResult
			viol *violation
			val  *valCase
		}
		var refs []ref
		for _, r := range byPkg[pkg] {
			perLabel := map[string]int{}
			for k := range r.Ex.violations {
				v := &r.Ex.violations[k]
				key := v.Label + "|" + v.KnownID + "|" + v.Kind
				// replay up to 6 candidates per label, preferring distinct nondet vectors (several
				// schedules of a threaded harness share one vector and replay identically)
				vk := key + "|" + fmtVec(v.Vec)
				if perLabel[vk] > 0 || perLabel[key] >= 6 {
					continue
				}
				perLabel[vk]++
				perLabel[key]++
				nc := nativeCase{Harness: r.Cfg.Func, Vec: v.Vec, Tier: tier, Sched: schedOf(v.Decisions)}
				if len(nc.Sched) > 0 {
					nc.Attempts = 400
				}
				cases = append(cases, nc)
				refs = append(refs, ref{res: r, viol: v})
			}
			for k := range r.Ex.valCases {
				if r.Spec.NoValidate {
					break // the native outcome depends on wall time: only counterexamples are replayed
				}
				vc := &r.Ex.valCases[k]
				cases = append(cases, nativeCase{Harness: r.Cfg.Func, Vec: vc.Vec, Tier: tier, Sched: vc.Sched})
				refs = append(refs, ref{res: r, val: vc})
			}
		}
		if len(cases) == 0 {
			continue
		}
		race := false
		for _, r := range byPkg[pkg] {
			if r.Spec.Race {
				race = true
			}
		}
		out, err := runNative(pkg, cases, race)
		if err != nil {
			notes = append(notes, "native replay failed for "+pkg+": "+err.Error())
			fmt.Printf("  REPLAY-ERROR %s: %v\n", pkg, err)
			replayBroken = true
			// candidates that cannot be replayed stay unconfirmed
			for _, rf := range refs {
				if rf.viol != nil {
					a.mismatched++
				}
			}
			continue
		}
		isolated := 0
		for k, rf := range refs {
			nr := out[k]
			if rf.viol != nil {
				v := rf.viol
				ok := false
				switch v.Kind {
				case "assert":
					ok = nr.Outcome == "assert" && nr.Label == v.Label
				case "panic":
					ok = nr.Outcome == "panic"
				case "stall":
					ok = nr.Outcome == "timeout"
				case "deadlock":
					ok = nr.Outcome == "timeout" || nr.Outcome == "deadlock"
				case "race":
					ok = nr.Outcome == "race" || nr.Race
				}
				if !ok && nr.Outcome == "ok" && isolated < 8 {
					// the batch shares one process: package-level state left by earlier cases (counters,
					// registries) can mask a counterexample. Re-run this candidate alone in a fresh process.
					isolated++
					if solo, err := runNative(pkg, []nativeCase{cases[k]}, race); err == nil && len(solo) == 1 {
						nr = solo[0]
						switch v.Kind {
						case "assert":
							ok = nr.Outcome == "assert" && nr.Label == v.Label
						case "panic":
							ok = nr.Outcome == "panic"
						case "race":
							ok = nr.Outcome == "race" || nr.Race
						}
					}
				}
				if !ok {
					a.mismatched++
					rf.res.Mismatches = append(rf.res.Mismatches, fmt.Sprintf("%s label=%q engine=%s native=%s/%s %s", v.Harness, v.Label, v.Kind, nr.Outcome, nr.Label, nr.Msg))
					fmt.Printf("  ENGINE-MISMATCH harness=%s label=%q engine says %s (%s) but the native run gives %s label=%q %s vec=%s\n", v.Harness, v.Label, v.Kind, v.Msg, nr.Outcome, nr.Label, nr.Msg, fmtVec(v.Vec))
					continue
				}
				a.reproduced++
				if v.KnownID != "" {
					listed := false
					for _, f := range known.Findings {
						if f.ID == v.KnownID && f.Property == ps.ID {
							listed = true
							if !knownPrinted[f.ID] {
								knownPrinted[f.ID] = true
								fmt.Printf("KNOWN-FINDING: property=%s %s [%s]\n", ps.ID, f.What, f.ID)
							}
						}
					}
					if listed {
						rf.res.KnownHits++
						continue
					}
				}
				violations++
				name := fmt.Sprintf("%s-%s-%d.json", ps.ID, v.Harness, violations)
				path := filepath.Join(replayDir, name)
				rp := map[string]interface{}{"property": ps.ID, "pkg": pkg, "harness": v.Harness, "tier": tier, "label": v.Label, "kind": v.Kind,
					"msg": v.Msg, "vec": v.Vec, "decisions": v.Decisions, "native": nr, "known_id": v.KnownID}
				b, _ := json.MarshalIndent(rp, "", " ")
				os.WriteFile(path, b, 0o644)
				fmt.Printf("VIOLATION property=%s replay=%s\n", ps.ID, path)
				fmt.Printf("  harness=%s label=%q %s: %s; native: %s %s\n", v.Harness, v.Label, v.Kind, v.Msg, nr.Outcome, nr.Msg)
				exit = 1
			} else {
				vc := rf.val
				if nr.Outcome == vc.Outcome && (vc.Observed == nil || equalStrs(nr.Observed, vc.Observed)) {
					a.validated++
				} else {
					a.valMismatch++
					msg := fmt.Sprintf("path validation mismatch harness=%s: engine %s %v / native %s %v %s vec=%s", rf.res.Cfg.Func, vc.Outcome, vc.Observed, nr.Outcome, nr.Observed, nr.Msg+nr.Label, fmtVec(vc.Vec))
					rf.res.Mismatches = append(rf.res.Mismatches, msg)
					if a.valMismatch <= 5 {
						fmt.Println("  ENGINE-MISMATCH " + firstLine(msg))
					}
				}
			}
		}
	}
	// vacuity
	vacuous := false
	for _, r := range results {
		need := r.Spec.Labels
		if len(need) == 0 && len(r.Ex.reached) == 0 {
			need = []string{"<any vReach label>"}
		}
		for _, l := range need {
			if r.Ex.reached[l] == 0 {
				fmt.Printf("  VACUOUS harness=%s never reached %q\n", r.Cfg.Func, l)
				vacuous = true
			}
		}
	}
	if *only == "" {
		writeEvidence(ps, tier, seed, results, time.Since(start), violations, a.reproduced, a.mismatched, a.validated, a.valMismatch, notes)
	}
	inconc := 0
	for _, r := range results {
		for _, n := range r.Ex.inconclusive {
			inconc += n
		}
	}
	fmt.Printf("property %s tier=%s: harnesses=%d violations=%d known=%d engine-mismatch=%d paths-validated-natively=%d (mismatch %d) inconclusive=%d wall=%.1fs\n",
		ps.ID, *tierS, len(results), violations, len(knownPrinted), a.mismatched, a.validated, a.valMismatch, inconc, time.Since(start).Seconds())
	if exit == 0 && (vacuous || replayBroken) {
		return 3
	}
	return exit
}

func equalStrs(a, b []string) bool {
	if len(a) != len(b) {
		return false
	}
	for k := range a {
		if a[k] != b[k] {
			return false
		}
	}
	return true
}

func schedOf(ds []decision) []int {
	var s []int
	for _, d := range ds {
		if d.Kind == 's' {
			s = append(s, int(d.Val))
		}
	}
	return s
}

func cmdReplay(args []string) int {
	if len(args) < 1 {
		fmt.Fprintln(os.Stderr, "usage: gosymex replay <replay.json>")
		return 2
	}
	b, err := os.ReadFile(args[0])
	if err != nil {
		fmt.Fprintln(os.Stderr, err)
		return 2
	}
	var rp struct {
		Property string
		Pkg      string
		Harness  string
		Tier     int
		Label    string
		Kind     string
		Vec      []uint64
		Decisions []decision
	}
	if err := json.Unmarshal(b, &rp); err != nil {
		fmt.Fprintln(os.Stderr, err)
		return 2
	}
	out, err := runNative(rp.Pkg, []nativeCase{{Harness: rp.Harness, Vec: rp.Vec, Tier: rp.Tier, Sched: schedOf(rp.Decisions)}}, rp.Kind == "race")
	if err != nil {
		fmt.Fprintln(os.Stderr, "replay failed:", err)
		return 2
	}
	nr := out[0]
	fmt.Printf("replay %s harness=%s: native outcome=%s label=%q %s\n", rp.Property, rp.Harness, nr.Outcome, nr.Label, nr.Msg)
	for _, o := range nr.Observed {
		fmt.Println("  observed", o)
	}
	if nr.Outcome != "ok" {
		fmt.Printf("VIOLATION property=%s replay=%s\n", rp.Property, args[0])
		return 1
	}
	return 0
}

func trimList(m map[string]bool, max int) []string {
	ks := make([]string, 0, len(m))
	for k := range m {
		ks = append(ks, k)
	}
	sort.Strings(ks)
	if len(ks) > max {
		ks = append(ks[:max], fmt.Sprintf("... (%d more)", len(ks)-max))
	}
	return ks
}

func writeEvidence(ps *propSpec, tier int, seed int64, results []*harnessResult, wall time.Duration, violations, reproduced, mismatched, validated, valMismatch int, notes []string) {
	tierName := "quick"
	if tier == 1 {
		tierName = "thorough"
	}
	cov := map[string]interface{}{}
	var states, transitions, evals, nontriv, obligations, discharged, queries int
	var solverTime float64
	funcs := map[string]bool{}
	stubs := map[string]bool{}
	var samples []interface{}
	var perHarness []interface{}
	var inconclusive []string
	var sizeSampled []string
	var bounds []string
	exhaustive := true
	for _, r := range results {
		ex := r.Ex
		states += ex.states
		transitions += ex.transitions
		evals += ex.completed
		nontriv += ex.nontrivial
		obligations += ex.obligations
		discharged += ex.discharged
		queries += ex.queries
		solverTime += ex.solverTime.Seconds()
		for f := range ex.funcs {
			funcs[f] = true
		}
		for s := range ex.stubs {
			stubs[s] = true
		}
		for k, s := range ex.samples {
			if k < 3 {
				s["harness"] = r.Cfg.Func
				samples = append(samples, s)
			}
		}
		for _, k := range sortedKeys(ex.inconclusive) {
			inconclusive = append(inconclusive, fmt.Sprintf("%s: %s (x%d)", r.Cfg.Func, firstLine(k), ex.inconclusive[k]))
			exhaustive = false
		}
		for _, k := range sortedKeys(ex.sizeSampled) {
			sizeSampled = append(sizeSampled, fmt.Sprintf("%s: %s (x%d)", r.Cfg.Func, k, ex.sizeSampled[k]))
			exhaustive = false
		}
		b := r.Spec.Bound
		if tier == 1 && r.Spec.BoundT != "" {
			b = r.Spec.BoundT
		}
		bounds = append(bounds, r.Cfg.Func+": "+b)
		perHarness = append(perHarness, map[string]interface{}{
			"harness": r.Cfg.Pkg + "." + r.Cfg.Func, "paths": ex.paths, "completed": ex.completed, "infeasible_assumption_paths": ex.infeasible, "schedules_pruned_by_sleep_sets": ex.pruned,
			"obligations": ex.obligations, "discharged": ex.discharged, "queries": ex.queries, "solver_time_s": round2(ex.solverTime.Seconds()),
			"wall_s": round2(r.Wall.Seconds()), "max_decision_depth": ex.maxDecisions, "labels_reached": ex.reached, "bound": b,
			"known_finding_hits": r.KnownHits, "engine_mismatches": r.Mismatches,
		})
	}
	if states < 1 {
		states = 1
	}
	if transitions < 1 {
		transitions = 1
	}
	if len(samples) == 0 {
		samples = append(samples, map[string]interface{}{"note": "no completed path with a symbolic decision"})
	}
	cov["states"] = states
	cov["transitions"] = transitions
	cov["traces_validated_against_impl"] = validated
	cov["samples"] = samples
	cov["evaluations"] = evals
	cov["distinct_nontrivial"] = nontriv
	cov["rule"] = ps.Rule + " A case is one completed symbolic path (a distinct decision vector); it is non-trivial when its path condition contains at least one symbolic decision and it reached an assertion. Each path stands for all inputs satisfying its path condition; the assertion queries are decided by the solver over all of them."
	cov["obligations"] = obligations
	cov["discharged"] = discharged
	cov["exhaustive"] = exhaustive && mismatched == 0
	cov["explanation"] = "bounded symbolic execution of the SSA of /repo's working tree (gosymex); every assertion on every path is an SMT query pc AND NOT(assertion); unsat = holds for all inputs of that path within the bound"
	cov["functions_encoded"] = trimList(funcs, 400)
	cov["functions_encoded_count"] = len(funcs)
	cov["stubs_used"] = trimList(stubs, 100)
	cov["bounds"] = bounds
	cov["queries"] = queries
	cov["solver_time_s"] = round2(solverTime)
	cov["solver_versions"] = []string{"z3 4.8.12 (-in, incremental)", "cvc5 1.0 (--incremental, FP queries)"}
	cov["inconclusive"] = inconclusive
	cov["size_sampled_sites"] = sizeSampled
	cov["per_harness"] = perHarness
	cov["violations_reproduced_natively"] = reproduced
	cov["engine_mismatches"] = mismatched
	cov["path_validation_mismatches"] = valMismatch
	cov["harness_files"] = harnessFilesOf(results)
	cov["notes"] = notes
	ev := map[string]interface{}{
		"property_id": ps.ID,
		"tier":        tierName,
		"seed":        seed,
		"level":       "model_checking",
		"coverage":    cov,
		"assumptions": ps.Assumptions,
		"wall_s":      round2(wall.Seconds()),
		"violations":  violations,
	}
	b, _ := json.MarshalIndent(ev, "", " ")
	dir := filepath.Join(verifDir(), "evidence")
	os.MkdirAll(dir, 0o755)
	os.WriteFile(filepath.Join(dir, ps.ID+".json"), append(b, '\n'), 0o644)
}

func harnessFilesOf(results []*harnessResult) []string {
	m := map[string]bool{}
	for _, r := range results {
		for _, f := range r.Files {
			m[f] = true
		}
	}
	return trimList(m, 50)
}

func round2(f float64) float64 { return float64(int(f*100+0.5)) / 100 }

var _ = strings.TrimSpace
