// Copyright 2013 The Go Authors. All rights reserved.
// Use of this source code is governed by a BSD-style
// license that can be found in the LICENSE.x-tools file.
//
// This file derives from golang.org/x/tools/go/ssa/interp (v0.29.0). It was changed into a
// path-exploring symbolic interpreter: scalar values may be SMT terms (*sym), branches,
// bounds checks and other decisions on symbolic values are delegated to the path explorer
// (path.go), maps/strings/channels have engine representations, goroutines are engine
// threads scheduled deterministically (threads.go).

package main

import (
	"fmt"
	"go/token"
	"go/types"
	"os"
	"runtime"
	"slices"

	"golang.org/x/tools/go/ssa"
)

type continuation int

const (
	kNext continuation = iota
	kReturn
	kJump
)

// State of one worker's interpreter. Dependency-package globals are initialised once per
// worker; the globals of the packages under test are re-initialised for every path.
type interpreter struct {
	prog               *ssa.Program
	globals            map[*ssa.Global]*value
	runtimeErrorString types.Type
	sizes              types.Sizes
	ts                 *TermStore
	p                  *path   // current path
	w                  *worker // owning worker
	initMode           bool    // executing package initialisers (tolerant mode)
	cur                *thread // current engine thread (nil when single-threaded)
	threads            []*thread
	steps              int64
	copyCost           int64 // elements moved by append/copy on this path (cost model of vCost)
	funcsSeen          map[*ssa.Function]bool
	trace              bool
	pendingAbort       interface{}
	shadows            map[interface{}]*shadow
	curFrame           *frame
	initDirect         bool
	mutexes            map[*value]*mutexState
	pools              map[*value][]value // sync.Pool contents of this path (LIFO)
	atomics            map[*value]*atomicClock
	unsafePkgs         map[*ssa.Package]bool
	elemOf             map[*value]elemRef
	addrs              map[*value]*Term
}

type deferred struct {
	fn    value
	args  []value
	instr *ssa.Defer
	tail  *deferred
}

type frame struct {
	i                *interpreter
	caller           *frame
	fn               *ssa.Function
	block, prevBlock *ssa.BasicBlock
	env              map[ssa.Value]value // dynamic values of SSA variables
	locals           []value
	defers           *deferred
	result           value
	panicking        bool
	panic            interface{}
	phitemps         []value // temporaries for parallel phi assignment
}

func (fr *frame) get(key ssa.Value) value {
	switch key := key.(type) {
	case nil:
		return nil
	case *ssa.Function, *ssa.Builtin:
		return key
	case *ssa.Const:
		return constValue(key)
	case *ssa.Global:
		if r, ok := fr.i.globals[key]; ok {
			if fr.i.w != nil && !fr.i.initMode {
				if why, bad := fr.i.w.poisoned[key]; bad {
					fr.i.abort(abUnsupported, "read of global "+key.String()+" whose initialiser was not executed: "+why)
				}
			}
			return r
		}
	}
	if r, ok := fr.env[key]; ok {
		return r
	}
	panic(fmt.Sprintf("get: no value for %T: %v", key, key.Name()))
}

// runDefer runs a deferred call d.
// It always returns normally, but may set or clear fr.panic.
func (fr *frame) runDefer(d *deferred) {
	var ok bool
	defer func() {
		if !ok {
			// Deferred call created a new state of panic.
			r := recover()
			if isEnginePanic(r) {
				panic(r)
			}
			fr.panicking = true
			fr.panic = r
		}
	}()
	call(fr.i, fr, d.instr.Pos(), d.fn, d.args)
	ok = true
}

func (fr *frame) runDefers() {
	for d := fr.defers; d != nil; d = d.tail {
		fr.runDefer(d)
	}
	fr.defers = nil
	if fr.panicking {
		panic(fr.panic) // new panic, or still panicking
	}
}

func lookupMethod(i *interpreter, typ types.Type, meth *types.Func) *ssa.Function {
	return i.prog.LookupMethod(typ, meth.Pkg(), meth.Name())
}

func deref(t types.Type) types.Type {
	if p, ok := t.Underlying().(*types.Pointer); ok {
		return p.Elem()
	}
	panic(fmt.Sprintf("deref: %s is not a pointer", t))
}

// visitInstr interprets a single ssa.Instruction within the activation record frame.
func visitInstr(fr *frame, instr ssa.Instruction) continuation {
	i := fr.i
	switch instr := instr.(type) {
	case *ssa.DebugRef:
		// no-op

	case *ssa.UnOp:
		fr.env[instr] = unop(i, instr, fr.get(instr.X))

	case *ssa.BinOp:
		fr.env[instr] = binop(i, instr.Op, instr.X.Type(), instr.Y.Type(), fr.get(instr.X), fr.get(instr.Y))

	case *ssa.Call:
		fn, args := prepareCall(fr, &instr.Call)
		if i.initMode && fr.caller == nil {
			fr.env[instr] = guardedInitCall(fr, instr, fn, args)
		} else {
			fr.env[instr] = call(fr.i, fr, instr.Pos(), fn, args)
		}

	case *ssa.ChangeInterface:
		fr.env[instr] = fr.get(instr.X)

	case *ssa.ChangeType:
		fr.env[instr] = fr.get(instr.X) // (can't fail)

	case *ssa.Convert:
		fr.env[instr] = conv(i, instr.Type(), instr.X.Type(), fr.get(instr.X))

	case *ssa.SliceToArrayPointer:
		fr.env[instr] = sliceToArrayPointer(instr.Type(), instr.X.Type(), fr.get(instr.X))

	case *ssa.MakeInterface:
		fr.env[instr] = iface{t: instr.X.Type(), v: fr.get(instr.X)}

	case *ssa.Extract:
		fr.env[instr] = fr.get(instr.Tuple).(tuple)[instr.Index]

	case *ssa.Slice:
		fr.env[instr] = slice(i, fr.get(instr.X), fr.get(instr.Low), fr.get(instr.High), fr.get(instr.Max))

	case *ssa.Return:
		switch len(instr.Results) {
		case 0:
		case 1:
			fr.result = fr.get(instr.Results[0])
		default:
			var res []value
			for _, r := range instr.Results {
				res = append(res, fr.get(r))
			}
			fr.result = tuple(res)
		}
		fr.block = nil
		return kReturn

	case *ssa.RunDefers:
		fr.runDefers()

	case *ssa.Panic:
		panic(targetPanic{fr.get(instr.X)})

	case *ssa.Send:
		chanSend(i, fr.get(instr.Chan).(*channel), fr.get(instr.X))

	case *ssa.Store:
		i.storeAddr(deref(instr.Addr.Type()), fr.get(instr.Addr), fr.get(instr.Val))

	case *ssa.If:
		succ := 1
		if i.truth(fr.get(instr.Cond)) {
			succ = 0
		}
		fr.prevBlock, fr.block = fr.block, fr.block.Succs[succ]
		return kJump

	case *ssa.Jump:
		fr.prevBlock, fr.block = fr.block, fr.block.Succs[0]
		return kJump

	case *ssa.Defer:
		fn, args := prepareCall(fr, &instr.Call)
		defers := &fr.defers
		if into := fr.get(instr.DeferStack); into != nil {
			defers = into.(**deferred)
		}
		*defers = &deferred{
			fn:    fn,
			args:  args,
			instr: instr,
			tail:  *defers,
		}

	case *ssa.Go:
		fn, args := prepareCall(fr, &instr.Call)
		i.spawn(fn, args, instr.Pos())

	case *ssa.MakeChan:
		n := i.concreteInt(fr.get(instr.Size), "make(chan) size")
		fr.env[instr] = &channel{capacity: int(n), elem: instr.Type().Underlying().(*types.Chan).Elem()}

	case *ssa.Alloc:
		var addr *value
		if instr.Heap {
			// new
			addr = new(value)
			fr.env[instr] = addr
		} else {
			// local
			addr = fr.env[instr].(*value)
		}
		*addr = zero(deref(instr.Type()))

	case *ssa.MakeSlice:
		c := i.concreteInt(fr.get(instr.Cap), "make([]T) cap")
		l := i.concreteInt(fr.get(instr.Len), "make([]T) len")
		if l < 0 || c < 0 || l > c {
			panic(runtimeError("makeslice: len out of range"))
		}
		if c > 1<<22 {
			i.abort(abUnsupported, fmt.Sprintf("make of %d elements exceeds the engine's allocation bound", c))
		}
		slice := make([]value, c)
		tElt := instr.Type().Underlying().(*types.Slice).Elem()
		for i := range slice {
			slice[i] = zero(tElt)
		}
		fr.env[instr] = slice[:l]

	case *ssa.MakeMap:
		fr.env[instr] = &omap{}

	case *ssa.Range:
		fr.env[instr] = rangeIter(i, fr.get(instr.X), instr.X.Type())

	case *ssa.Next:
		fr.env[instr] = fr.get(instr.Iter).(iter).next()

	case *ssa.FieldAddr:
		p := fr.get(instr.X).(*value)
		if p == nil {
			panic(runtimeError("invalid memory address or nil pointer dereference"))
		}
		fr.env[instr] = &(*p).(structure)[instr.Field]

	case *ssa.Field:
		fr.env[instr] = fr.get(instr.X).(structure)[instr.Field]

	case *ssa.IndexAddr:
		x := fr.get(instr.X)
		idx := fr.get(instr.Index)
		switch x := x.(type) {
		case []value:
			pv := i.indexAddr(x, idx)
			if rp, ok := pv.(*value); ok && len(x) > 0 {
				if k, isInt := idx.(int); isInt {
					i.noteElem(fr, rp, x, k)
				}
			}
			fr.env[instr] = pv
		case *value: // *array
			if x == nil {
				panic(runtimeError("invalid memory address or nil pointer dereference"))
			}
			a := (*x).(array)
			fr.env[instr] = i.indexAddr(a, idx)
		default:
			panic(fmt.Sprintf("unexpected x type in IndexAddr: %T", x))
		}

	case *ssa.Index:
		x := fr.get(instr.X)
		idx := fr.get(instr.Index)
		switch x := x.(type) {
		case array:
			fr.env[instr] = i.indexScalar(x, idx)
		case string:
			k := i.indexCheck(idx, len(x))
			fr.env[instr] = x[k]
		case sstr:
			fr.env[instr] = i.indexScalar(x.b, idx)
		default:
			panic(fmt.Sprintf("unexpected x type in Index: %T", x))
		}

	case *ssa.Lookup:
		fr.env[instr] = lookup(i, instr, fr.get(instr.X), fr.get(instr.Index))

	case *ssa.MapUpdate:
		m := fr.get(instr.Map).(*omap)
		if m == nil {
			panic(runtimeError("assignment to entry in nil map"))
		}
		m.insert(i, instr.Map.Type().Underlying().(*types.Map).Key(), fr.get(instr.Key), fr.get(instr.Value))

	case *ssa.TypeAssert:
		fr.env[instr] = typeAssert(fr.i, instr, fr.get(instr.X).(iface))

	case *ssa.MakeClosure:
		var bindings []value
		for _, binding := range instr.Bindings {
			bindings = append(bindings, fr.get(binding))
		}
		fr.env[instr] = &closure{instr.Fn.(*ssa.Function), bindings}

	case *ssa.Phi:
		panic("unreachable") // phis are processed at block entry

	case *ssa.Select:
		fr.env[instr] = doSelect(fr, instr)

	default:
		panic(fmt.Sprintf("unexpected instruction: %T", instr))
	}
	return kNext
}

func prepareCall(fr *frame, call *ssa.CallCommon) (fn value, args []value) {
	v := fr.get(call.Value)
	if call.Method == nil {
		// Function call.
		fn = v
	} else {
		// Interface method invocation.
		recv := v.(iface)
		if recv.t == nil {
			panic(runtimeError("invalid memory address or nil pointer dereference (method invoked on nil interface)"))
		}
		if f := lookupMethod(fr.i, recv.t, call.Method); f == nil {
			// Unreachable in well-typed programs.
			panic(fmt.Sprintf("method set for dynamic type %v does not contain %s", recv.t, call.Method))
		} else {
			fn = f
		}
		args = append(args, recv.v)
	}
	for _, arg := range call.Args {
		args = append(args, fr.get(arg))
	}
	return
}

func call(i *interpreter, caller *frame, callpos token.Pos, fn value, args []value) value {
	switch fn := fn.(type) {
	case *ssa.Function:
		if fn == nil {
			panic(runtimeError("invalid memory address or nil pointer dereference (call of nil function)"))
		}
		return callSSA(i, caller, callpos, fn, args, nil)
	case *closure:
		return callSSA(i, caller, callpos, fn.Fn, args, fn.Env)
	case *ssa.Builtin:
		return callBuiltin(caller, callpos, fn, args)
	}
	panic(fmt.Sprintf("cannot call %T", fn))
}

func loc(fset *token.FileSet, pos token.Pos) string {
	if pos == token.NoPos {
		return ""
	}
	return " at " + fset.Position(pos).String()
}

func callSSA(i *interpreter, caller *frame, callpos token.Pos, fn *ssa.Function, args []value, env []value) value {
	fr := &frame{
		i:      i,
		caller: caller, // for panic/recover
		fn:     fn,
	}
	if i.trace {
		fmt.Fprintf(os.Stderr, "Entering %s\n", fn)
		defer fmt.Fprintf(os.Stderr, "Leaving %s\n", fn)
	}
	if i.initMode && fn.Pkg != nil && fn.Name() == "init" && fn.Pkg.Func("init") == fn {
		if i.initDirect {
			i.initDirect = false
		} else {
			path := fn.Pkg.Pkg.Path()
			if initWhitelist[path] || i.w.prog.isTarget(path) {
				i.w.runInit(fn.Pkg)
			}
			return nil
		}
	}
	if fn.Parent() == nil {
		name := fn.String()
		if ext := lookupExternal(i, fn, name); ext != nil {
			if r := ext(fr, args); r != (notHandled{}) {
				return r
			}
		}
		if fn.Blocks == nil {
			if i.initMode {
				return poisonFor(fn.Signature.Results())
			}
			i.abort(abUnsupported, "no code for function: "+name)
		}
	}
	if i.funcsSeen != nil && !i.funcsSeen[fn] {
		i.funcsSeen[fn] = true
	}

	// generic function body?
	if fn.TypeParams().Len() > 0 && len(fn.TypeArgs()) == 0 {
		panic("interp requires ssa.BuilderMode to include InstantiateGenerics to execute generics")
	}

	fr.env = make(map[ssa.Value]value)
	fr.block = fn.Blocks[0]
	fr.locals = make([]value, len(fn.Locals))
	for i, l := range fn.Locals {
		fr.locals[i] = zero(deref(l.Type()))
		fr.env[l] = &fr.locals[i]
	}
	for i, p := range fn.Params {
		fr.env[p] = args[i]
	}
	for i, fv := range fn.FreeVars {
		fr.env[fv] = env[i]
	}
	saved := i.curFrame
	i.curFrame = fr
	for fr.block != nil {
		runFrame(fr)
	}
	i.curFrame = saved
	return fr.result
}

// runFrame executes SSA instructions starting at fr.block and
// continuing until a return, a panic, or a recovered panic.
func runFrame(fr *frame) {
	defer func() {
		if fr.block == nil {
			return // normal return
		}
		r := recover()
		if isEnginePanic(r) {
			panic(r) // path abort: unwinds everything, target defers do not run
		}
		fr.panicking = true
		fr.panic = r
		fr.runDefers()
		fr.block = fr.fn.Recover
	}()

	i := fr.i
	for {
		nonPhis := executePhis(fr)
		for _, instr := range nonPhis {
			i.steps++
			if i.p != nil && i.steps > i.p.stepBudget {
				i.abort(abBudget, fmt.Sprintf("step budget of %d instructions exhausted in %s", i.p.stepBudget, fr.fn))
			}
			if i.trace {
				if v, ok := instr.(ssa.Value); ok {
					fmt.Fprintln(os.Stderr, "\t", v.Name(), "=", instr)
				} else {
					fmt.Fprintln(os.Stderr, "\t", instr)
				}
			}
			if visitInstr(fr, instr) == kReturn {
				return
			}
		}
	}
}

func executePhis(fr *frame) []ssa.Instruction {
	firstNonPhi := -1
	for i, instr := range fr.block.Instrs {
		if _, ok := instr.(*ssa.Phi); !ok {
			firstNonPhi = i
			break
		}
	}
	nonPhis := fr.block.Instrs[firstNonPhi:]
	if firstNonPhi > 0 {
		phis := fr.block.Instrs[:firstNonPhi]
		predIndex := slices.Index(fr.block.Preds, fr.prevBlock)
		fr.phitemps = fr.phitemps[:0]
		for _, phi := range phis {
			phi := phi.(*ssa.Phi)
			fr.phitemps = append(fr.phitemps, fr.get(phi.Edges[predIndex]))
		}
		for i, phi := range phis {
			fr.env[phi.(*ssa.Phi)] = fr.phitemps[i]
		}
	}
	return nonPhis
}

// doRecover implements the recover() built-in.
func doRecover(caller *frame) value {
	if caller != nil && !caller.panicking &&
		caller.caller != nil && caller.caller.panicking {
		caller.caller.panicking = false
		p := caller.caller.panic
		caller.caller.panic = nil
		return panicValue(caller.i, p)
	}
	return iface{}
}

// panicValue converts an engine-level panic payload into the Go value recover() returns.
func panicValue(i *interpreter, p interface{}) value {
	switch p := p.(type) {
	case targetPanic:
		return p.v
	case runtimeError:
		return iface{i.runtimeErrorString, "runtime error: " + string(p)}
	case runtime.Error:
		return iface{i.runtimeErrorString, p.Error()}
	case string:
		return iface{i.runtimeErrorString, p}
	default:
		panic(fmt.Sprintf("unexpected panic type %T in target call to recover()", p))
	}
}

// runtimeError is a Go run-time panic raised by the engine on behalf of the target program
// (index out of range, nil dereference, division by zero, ...).
type runtimeError string

func (e runtimeError) Error() string { return "runtime error: " + string(e) }

func panicString(p interface{}) string {
	switch p := p.(type) {
	case targetPanic:
		return "panic: " + toString(p.v)
	case runtimeError:
		return "panic: runtime error: " + string(p)
	case runtime.Error:
		return "panic: " + p.Error()
	case string:
		return "panic: " + p
	}
	return fmt.Sprintf("panic: %v", p)
}

// guardedInitCall runs a call made directly by a package initialiser; if the callee cannot
// be executed by the engine the result is poison instead of a failed initialiser.
func guardedInitCall(fr *frame, instr *ssa.Call, fn value, args []value) (res value) {
	defer func() {
		if r := recover(); r != nil {
			if os.Getenv("GOSYMEX_DEBUG") != "" {
				fmt.Fprintf(os.Stderr, "init call %s in %s failed: %v\n", instr, fr.fn, firstLine(fmt.Sprint(r)))
			}
			res = poisonFor(instr.Call.Signature().Results())
		}
	}()
	return call(fr.i, fr, instr.Pos(), fn, args)
}

func firstLine(s string) string {
	for k := 0; k < len(s); k++ {
		if s[k] == '\n' {
			return s[:k]
		}
	}
	return s
}
