// Front end: load /repo's current working tree with the harness files overlaid, build SSA.
package main

import (
	"fmt"
	"os"
	"path/filepath"
	"sort"
	"strings"

	"golang.org/x/tools/go/packages"
	"golang.org/x/tools/go/ssa"
	"golang.org/x/tools/go/ssa/ssautil"
)

const repoModule = "github.com/ossrs/go-oryx-lib"

type loadedProgram struct {
	prog    *ssa.Program
	main    *ssa.Package   // the package the harness lives in
	targets []*ssa.Package // all packages of the repo module that are loaded
	files   []string       // harness files overlaid
}

func (lp *loadedProgram) isTarget(path string) bool {
	return path == repoModule || strings.HasPrefix(path, repoModule+"/")
}

func (lp *loadedProgram) harnessFn(name string) *ssa.Function {
	fn := lp.main.Func(name)
	if fn == nil {
		panic("harness function not found: " + name)
	}
	return fn
}

func (lp *loadedProgram) hasHarness(name string) bool { return lp.main.Func(name) != nil }

func repoDir() string {
	if d := os.Getenv("VERIF_REPO"); d != "" {
		return d
	}
	return "/repo"
}

func verifDir() string {
	if d := os.Getenv("VERIF_DIR"); d != "" {
		return d
	}
	exe, err := os.Executable()
	if err == nil {
		d := filepath.Dir(filepath.Dir(exe))
		if _, err := os.Stat(filepath.Join(d, "harness")); err == nil {
			return d
		}
	}
	return "/verif"
}

// harnessOverlay builds the overlay for package directory pkgDir (relative to the repo):
// every file in /verif/harness/<pkgDir>/ plus the shared nondet declarations.
// mode is "sym" (bodyless declarations) or "replay" (native bodies).
func harnessOverlay(pkgDir, mode string) (map[string][]byte, []string, error) {
	ov := map[string][]byte{}
	var names []string
	hdir := filepath.Join(verifDir(), "harness", pkgDir)
	ents, err := os.ReadDir(hdir)
	if err != nil {
		return nil, nil, err
	}
	pkgName := ""
	for _, e := range ents {
		if !strings.HasSuffix(e.Name(), ".go") {
			continue
		}
		src, err := os.ReadFile(filepath.Join(hdir, e.Name()))
		if err != nil {
			return nil, nil, err
		}
		for _, line := range strings.Split(string(src), "\n") {
			if strings.HasPrefix(line, "package ") {
				pkgName = strings.TrimSpace(strings.TrimPrefix(line, "package "))
				break
			}
		}
		stale := false
		for _, sf := range staleHarness[pkgDir] {
			if sf == "zz_verif_"+e.Name() {
				stale = true
			}
		}
		if stale {
			continue
		}
		dst := filepath.Join(repoDir(), pkgDir, "zz_verif_"+e.Name())
		ov[dst] = src
		names = append(names, filepath.Join(hdir, e.Name()))
	}
	if pkgName == "" {
		return nil, nil, fmt.Errorf("no harness files in %s", hdir)
	}
	tmpl := "nondet_sym.go.tmpl"
	if mode == "replay" {
		tmpl = "nondet_replay.go.tmpl"
	}
	src, err := os.ReadFile(filepath.Join(verifDir(), "harness", "common", tmpl))
	if err != nil {
		return nil, nil, err
	}
	ov[filepath.Join(repoDir(), pkgDir, "zz_verif_nondet.go")] = []byte(strings.Replace(string(src), "package PKG", "package "+pkgName, 1))
	sort.Strings(names)
	return ov, names, nil
}

// staleHarness records harness files that no longer compile against the tree under test
// (they refer to unexported identifiers that a refactoring renamed or removed). Such files are
// left out and their harnesses reported as not run - never as a violation.
var staleHarness = map[string][]string{} // pkgDir -> harness source files dropped

func loadProgram(pkgDir string) (*loadedProgram, error) {
	ov, names, err := harnessOverlay(pkgDir, "sym")
	if err != nil {
		return nil, err
	}
	var initial []*packages.Package
	for attempt := 0; ; attempt++ {
		cfg := &packages.Config{
			Mode:    packages.LoadAllSyntax,
			Dir:     repoDir(),
			Overlay: ov,
			Env:     append(os.Environ(), "GOFLAGS=-mod=mod", "GOPROXY=off", "GOSUMDB=off", "GOTOOLCHAIN=local", "CGO_ENABLED=0"),
		}
		initial, err = packages.Load(cfg, "./"+pkgDir)
		if err != nil {
			return nil, err
		}
		nerr := 0
		badFiles := map[string]bool{}
		var msgs []string
		packages.Visit(initial, nil, func(p *packages.Package) {
			for _, e := range p.Errors {
				nerr++
				msgs = append(msgs, e.Error())
				// position "file:line:col"
				pos := e.Pos
				if k := strings.Index(pos, ":"); k > 0 {
					f := pos[:k]
					if _, isHarness := ov[f]; isHarness && !strings.HasSuffix(f, "zz_verif_nondet.go") {
						badFiles[f] = true
					}
				}
			}
		})
		if nerr == 0 {
			break
		}
		if len(badFiles) == 0 || attempt > 6 {
			for _, m := range msgs {
				fmt.Fprintf(os.Stderr, "load error: %v\n", m)
			}
			return nil, fmt.Errorf("%d errors loading %s (does /repo build?)", nerr, pkgDir)
		}
		// drop the harness files that do not compile and try again (other files may depend on them:
		// the loop repeats until what is left compiles)
		for f := range badFiles {
			delete(ov, f)
			staleHarness[pkgDir] = append(staleHarness[pkgDir], filepath.Base(f))
			fmt.Fprintf(os.Stderr, "HARNESS-STALE %s does not compile against this tree and is left out: %s\n", filepath.Base(f), firstLine(strings.Join(msgs, "; ")))
		}
	}
	prog, pkgs := ssautil.AllPackages(initial, ssa.InstantiateGenerics)
	prog.Build()
	lp := &loadedProgram{prog: prog, main: pkgs[0], files: names}
	for _, p := range prog.AllPackages() {
		if lp.isTarget(p.Pkg.Path()) {
			lp.targets = append(lp.targets, p)
		}
	}
	sort.Slice(lp.targets, func(a, b int) bool { return lp.targets[a].Pkg.Path() < lp.targets[b].Pkg.Path() })
	return lp, nil
}
