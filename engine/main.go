// gosymex: bounded symbolic execution of Go SSA with an SMT solver as the deciding step.
package main

import (
	"flag"
	"runtime/pprof"
	"fmt"
	"os"
	"sort"
	"strconv"
	"sync"
	"time"
)

// harnessResult is what one symbolic run of one harness produced.
type harnessResult struct {
	Cfg     *harnessCfg
	Ex      *explorer
	Wall    time.Duration
	Files   []string
	LoadErr error
	Spec    harnessSpec
	KnownHits  int
	Mismatches []string
}

func runHarness(cfg *harnessCfg, lp *loadedProgram) *harnessResult {
	start := time.Now()
	ex := newExplorer(cfg)
	nw := cfg.Workers
	if nw <= 0 {
		nw = 16
	}
	var wg sync.WaitGroup
	workers := make([]*worker, nw)
	var werr error
	var mu sync.Mutex
	for k := 0; k < nw; k++ {
		wg.Add(1)
		go func(k int) {
			defer wg.Done()
			w, err := newWorker(k, ex, lp)
			if err != nil {
				mu.Lock()
				werr = err
				mu.Unlock()
				return
			}
			workers[k] = w
			w.loop()
		}(k)
	}
	wg.Wait()
	if werr != nil {
		ex.engineErrors = append(ex.engineErrors, werr.Error())
	}
	for _, w := range workers {
		if w == nil {
			continue
		}
		for fn := range w.in.funcsSeen {
			ex.funcs[fn.String()] = true
		}
		for s := range w.stubsUsed {
			ex.stubs[s] = true
		}
		ex.queries += w.z3.Queries
		ex.solverTime += w.z3.SolveTime
		if w.cvc5 != nil {
			ex.queries += w.cvc5.Queries
			ex.solverTime += w.cvc5.SolveTime
		}
		for _, e := range w.solverErrs {
			ex.inconclusive["solver error: "+e]++
		}
		w.close()
	}
	return &harnessResult{Cfg: cfg, Ex: ex, Wall: time.Since(start), Files: lp.files}
}

func cmdRun(args []string) int {
	fs := flag.NewFlagSet("run", flag.ExitOnError)
	pkg := fs.String("pkg", "", "package directory relative to the repo (e.g. aac)")
	fn := fs.String("harness", "", "harness function name")
	tier := fs.Int("tier", 0, "0 quick, 1 thorough")
	workers := fs.Int("workers", 16, "worker count")
	steps := fs.Int64("steps", 2000000, "step budget per path")
	decs := fs.Int("decisions", 4000, "decision budget per path")
	timeout := fs.Int("timeout", 20, "solver timeout per query (s)")
	fp := fs.Bool("fp", false, "use cvc5 for floating-point queries")
	trace := fs.Bool("trace", false, "trace instructions")
	conc := fs.Int("conc", 64, "concretisation limit")
	maxPaths := fs.Int("maxpaths", 0, "stop after this many paths (0 = no cap)")
	timeFixed := fs.Bool("timefixed", false, "time.Now returns a fixed instant")
	stall := fs.Bool("stall", false, "budget overruns are stall candidates")
	timers := fs.Bool("timers", false, "timers with a finite duration may fire")
	symaddr := fs.Bool("symaddr", false, "object addresses are symbolic")
	fs.Parse(args)
	lp, err := loadProgram(*pkg)
	if err != nil {
		fmt.Fprintln(os.Stderr, "load:", err)
		return 2
	}
	cfg := &harnessCfg{Prop: "adhoc", Pkg: *pkg, Func: *fn, Tier: *tier, StepBudget: *steps, DecBudget: *decs,
		concLimit: *conc, Timeout: time.Duration(*timeout) * time.Second, Workers: *workers, FP: *fp, MaxPaths: *maxPaths, TimeFixed: *timeFixed, Stall: *stall, TimersMayFire: *timers, SymAddr: *symaddr}
	traceAll = *trace
	res := runHarness(cfg, lp)
	printResult(res)
	if len(res.Ex.violations) > 0 {
		return 1
	}
	return 0
}

var traceAll bool

func printResult(res *harnessResult) {
	ex := res.Ex
	fmt.Printf("harness %s/%s: paths=%d completed=%d infeasible=%d pruned=%d nontrivial=%d obligations=%d discharged=%d queries=%d solver=%.1fs wall=%.1fs maxdec=%d\n",
		res.Cfg.Pkg, res.Cfg.Func, ex.paths, ex.completed, ex.infeasible, ex.pruned, ex.nontrivial, ex.obligations, ex.discharged, ex.queries, ex.solverTime.Seconds(), res.Wall.Seconds(), ex.maxDecisions)
	labels := sortedKeys(ex.reached)
	fmt.Printf("  reached: %v\n", labels)
	for _, k := range sortedKeys(ex.inconclusive) {
		fmt.Printf("  INCONCLUSIVE x%d: %s\n", ex.inconclusive[k], k)
	}
	for _, k := range sortedKeys(ex.sizeSampled) {
		fmt.Printf("  SIZE-SAMPLED x%d: %s\n", ex.sizeSampled[k], k)
	}
	for _, e := range ex.engineErrors {
		fmt.Printf("  ENGINE-ERROR: %s\n", e)
	}
	seen := map[string]int{}
	for _, v := range ex.violations {
		key := v.Kind + "|" + v.Label + "|" + v.Msg
		seen[key]++
		if seen[key] > 2 {
			continue
		}
		fmt.Printf("  CANDIDATE %s label=%q known=%q msg=%s vec=%v decisions=%s\n", v.Kind, v.Label, v.KnownID, v.Msg, fmtVec(v.Vec), fmtDecisions(v.Decisions))
	}
	keys := make([]string, 0, len(seen))
	for k := range seen {
		keys = append(keys, k)
	}
	sort.Strings(keys)
	for _, k := range keys {
		if seen[k] > 2 {
			fmt.Printf("  (%d candidates of kind %s)\n", seen[k], k)
		}
	}
}

func fmtVec(v []uint64) string {
	s := "["
	for k, x := range v {
		if k > 0 {
			s += " "
		}
		if k > 64 {
			s += "..."
			break
		}
		s += "0x" + strconv.FormatUint(x, 16)
	}
	return s + "]"
}

func main() {
	if f := os.Getenv("GOSYMEX_CPUPROFILE"); f != "" {
		fh, _ := os.Create(f)
		pprof.StartCPUProfile(fh)
		go func() {
			time.Sleep(25 * time.Second)
			pprof.StopCPUProfile()
			fh.Close()
			os.Exit(9)
		}()
	}
	if len(os.Args) < 2 {
		fmt.Fprintln(os.Stderr, "usage: gosymex run|check|replay ...")
		os.Exit(2)
	}
	switch os.Args[1] {
	case "run":
		os.Exit(cmdRun(os.Args[2:]))
	case "check":
		os.Exit(cmdCheck(os.Args[2:]))
	case "replay":
		os.Exit(cmdReplay(os.Args[2:]))
	case "selftest":
		os.Exit(cmdSelftest(os.Args[2:]))
	default:
		fmt.Fprintln(os.Stderr, "unknown command", os.Args[1])
		os.Exit(2)
	}
}

func fmtDecisions(ds []decision) string {
	s := ""
	for k, d := range ds {
		if k > 80 {
			s += "..."
			break
		}
		s += fmt.Sprintf("%c%d ", d.Kind, d.Val)
	}
	return s
}
