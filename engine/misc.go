package main

import (
	"fmt"
	"go/token"
	"go/types"
)

func isStr(v value) bool {
	switch v.(type) {
	case string, sstr, opaqueStr:
		return true
	}
	return false
}

// strBinop handles string operators when an operand is a symbolic or opaque string.
func strBinop(i *interpreter, op token.Token, x, y value) (value, bool) {
	_, xs := x.(string)
	_, ys := y.(string)
	if xs && ys {
		return nil, false // the concrete code handles it
	}
	_, xo := x.(opaqueStr)
	_, yo := y.(opaqueStr)
	if xo || yo {
		if op == token.ADD {
			// concatenation with a formatted string stays opaque
			i.w.opaqueCtr++
			return opaqueStr{i.w.opaqueCtr}, true
		}
		if op == token.EQL || op == token.NEQ {
			r := equalsV(i, types.Typ[types.String], x, y)
			if op == token.NEQ {
				r = i.not(r)
			}
			return r, true
		}
		i.abort(abUnsupported, "operation on an opaque (formatted) string")
	}
	switch op {
	case token.ADD:
		return mkStr(append(append([]value(nil), strBytes(x)...), strBytes(y)...)), true
	case token.EQL:
		return strEq(i, x, y), true
	case token.NEQ:
		return i.not(strEq(i, x, y)), true
	case token.LSS:
		return strLess(i, x, y), true
	case token.GTR:
		return strLess(i, y, x), true
	case token.LEQ:
		return i.not(strLess(i, y, x)), true
	case token.GEQ:
		return i.not(strLess(i, x, y)), true
	}
	return nil, false
}

func zeroLike(v value) value {
	if k := valueKind(v); k != types.Invalid {
		return fromBits(k, 0)
	}
	switch v := v.(type) {
	case string, sstr, opaqueStr:
		return ""
	case *value:
		return (*value)(nil)
	case []value:
		return []value(nil)
	case *omap:
		return (*omap)(nil)
	case iface:
		return iface{}
	case structure:
		r := make(structure, len(v))
		for k := range v {
			r[k] = zeroLike(v[k])
		}
		return r
	case array:
		r := make(array, len(v))
		for k := range v {
			r[k] = zeroLike(v[k])
		}
		return r
	}
	panic(fmt.Sprintf("zeroLike: %T", v))
}

func poisonFor(res *types.Tuple) value {
	switch res.Len() {
	case 0:
		return nil
	case 1:
		return poison{"result of a function without body"}
	}
	t := make(tuple, res.Len())
	for k := range t {
		t[k] = poison{"result of a function without body"}
	}
	return t
}

// loadAddr loads a value of type T through a pointer value.
func (i *interpreter) loadAddr(T types.Type, addr value) value {
	p, ok := addr.(*value)
	if !ok {
		if sa, isSA := addr.(*symAddr); isSA {
			return i.loadSymAddr(sa)
		}
		if wp, isWP := addr.(*wordPtr); isWP {
			return i.loadWord(wp)
		}
		if _, isP := addr.(poison); isP {
			if i.initMode {
				return addr
			}
			i.abort(abUnsupported, "dereference of a value from an unexecuted initialiser")
		}
		panic(fmt.Sprintf("loadAddr: %T", addr))
	}
	if p == nil {
		panic(runtimeError("invalid memory address or nil pointer dereference"))
	}
	if i.shadows != nil {
		i.accessT(T, p, false)
	}
	return load(T, p)
}

func (i *interpreter) storeAddr(T types.Type, addr value, v value) {
	p, ok := addr.(*value)
	if !ok {
		if sa, isSA := addr.(*symAddr); isSA {
			i.storeSymAddr(sa, v)
			return
		}
		if wp, isWP := addr.(*wordPtr); isWP {
			i.storeWord(wp, v)
			return
		}
		if _, isP := addr.(poison); isP && i.initMode {
			return
		}
		panic(fmt.Sprintf("storeAddr: %T", addr))
	}
	if p == nil {
		panic(runtimeError("invalid memory address or nil pointer dereference"))
	}
	if i.shadows != nil {
		i.accessT(T, p, true)
	}
	if _, isP := v.(poison); isP {
		*p = v
		return
	}
	if _, isP := (*p).(poison); isP {
		*p = copyVal(v)
		return
	}
	store(T, p, v)
}

// accessT records accesses to every scalar slot of a value of type T at p.
func (i *interpreter) accessT(T types.Type, p *value, write bool) {
	switch T := T.Underlying().(type) {
	case *types.Struct:
		if s, ok := (*p).(structure); ok {
			for k := range s {
				i.accessT(T.Field(k).Type(), &s[k], write)
			}
			return
		}
	case *types.Array:
		if a, ok := (*p).(array); ok {
			for k := range a {
				i.accessT(T.Elem(), &a[k], write)
			}
			return
		}
	}
	i.access(p, write)
}

const tokenADD = token.ADD
