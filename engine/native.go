// Native replay: run harnesses with recorded nondet vectors against the real build of
// /repo's working tree through `go test -overlay` (nothing is written into /repo).
package main

import (
	"bytes"
	"encoding/json"
	"fmt"
	"os"
	"os/exec"
	"path/filepath"
	"regexp"
	"sort"
	"strings"
	"time"
)

type nativeCase struct {
	Harness string   `json:"harness"`
	Vec     []uint64 `json:"vec"`
	Tier    int      `json:"tier"`
	Sched   []int    `json:"sched,omitempty"`
	// Attempts > 1: a schedule-dependent counterexample; the case is re-run with schedule
	// perturbation until it fails or the attempts are used up
	Attempts int `json:"attempts,omitempty"`
}

type nativeResult struct {
	Outcome  string   `json:"outcome"` // ok | assert | assume | vector | panic | timeout
	Label    string   `json:"label,omitempty"`
	Known    string   `json:"known,omitempty"`
	Msg      string   `json:"msg,omitempty"`
	Observed []string `json:"observed,omitempty"`
	Reached  []string `json:"reached,omitempty"`
	Race     bool     `json:"race,omitempty"`
}

var harnessFuncRe = regexp.MustCompile(`(?m)^func (Harness[A-Za-z0-9_]+)\(\)`)

const replayTestTmpl = `package PKG

import (
	"encoding/json"
	"fmt"
	"os"
	"testing"
	"time"
)

var vHarnesses = map[string]func(){
HARNESSES}

type vCase struct {
	Harness string   ` + "`json:\"harness\"`" + `
	Vec     []uint64 ` + "`json:\"vec\"`" + `
	Tier    int      ` + "`json:\"tier\"`" + `
	Sched   []int    ` + "`json:\"sched\"`" + `
	Attempts int     ` + "`json:\"attempts\"`" + `
}

type vResult struct {
	Outcome  string   ` + "`json:\"outcome\"`" + `
	Label    string   ` + "`json:\"label,omitempty\"`" + `
	Known    string   ` + "`json:\"known,omitempty\"`" + `
	Msg      string   ` + "`json:\"msg,omitempty\"`" + `
	Observed []string ` + "`json:\"observed,omitempty\"`" + `
	Reached  []string ` + "`json:\"reached,omitempty\"`" + `
}

func vRunCase(c vCase) (res vResult) {
	vVec, vPos, vTierVal, vReached, vObserved = c.Vec, 0, c.Tier, nil, nil
	vSched, vSchedPos = c.Sched, 0
	done := make(chan vResult, 1)
	go func() {
		var r vResult
		defer func() {
			if p := recover(); p != nil {
				if f, ok := p.(vFail); ok {
					r.Outcome, r.Label, r.Known = f.Kind, f.Label, f.Known
				} else {
					r.Outcome, r.Msg = "panic", fmt.Sprint(p)
				}
			}
			r.Observed, r.Reached = vObserved, vReached
			done <- r
		}()
		f := vHarnesses[c.Harness]
		if f == nil {
			panic(vFail{Kind: "vector", Label: "unknown harness " + c.Harness})
		}
		f()
		r.Outcome = "ok"
	}()
	select {
	case res = <-done:
	case <-time.After(10 * time.Second):
		res = vResult{Outcome: "timeout", Msg: "harness did not return within 10 s"}
	}
	return
}

func TestVerifReplay(t *testing.T) {
	data, err := os.ReadFile(os.Getenv("VERIF_CASES"))
	if err != nil {
		t.Fatal(err)
	}
	var cases []vCase
	if err := json.Unmarshal(data, &cases); err != nil {
		t.Fatal(err)
	}
	out, err := os.Create(os.Getenv("VERIF_RESULTS"))
	if err != nil {
		t.Fatal(err)
	}
	defer out.Close()
	enc := json.NewEncoder(out)
	for _, c := range cases {
		r := vRunCase(c)
		for k := 1; k < c.Attempts && r.Outcome == "ok"; k++ {
			vPerturb = true
			r = vRunCase(c)
		}
		vPerturb = false
		enc.Encode(r)
	}
}
`

func runNative(pkgDir string, cases []nativeCase, race bool) ([]nativeResult, error) {
	tmp, err := os.MkdirTemp("", "gosymex-replay-")
	if err != nil {
		return nil, err
	}
	defer os.RemoveAll(tmp)
	ov, _, err := harnessOverlay(pkgDir, "replay")
	if err != nil {
		return nil, err
	}
	// collect harness function names and the package name
	var names []string
	pkgName := ""
	for _, src := range ov {
		for _, m := range harnessFuncRe.FindAllSubmatch(src, -1) {
			names = append(names, string(m[1]))
		}
		if pkgName == "" {
			for _, line := range strings.Split(string(src), "\n") {
				if strings.HasPrefix(line, "package ") {
					pkgName = strings.TrimSpace(strings.TrimPrefix(line, "package "))
					break
				}
			}
		}
	}
	sort.Strings(names)
	var hs strings.Builder
	for _, n := range names {
		fmt.Fprintf(&hs, "\t%q: %s,\n", n, n)
	}
	test := strings.Replace(replayTestTmpl, "package PKG", "package "+pkgName, 1)
	test = strings.Replace(test, "HARNESSES", hs.String(), 1)
	ov[filepath.Join(repoDir(), pkgDir, "zz_verif_replay_test.go")] = []byte(test)
	replace := map[string]string{}
	n := 0
	for dst, src := range ov {
		n++
		f := filepath.Join(tmp, fmt.Sprintf("f%d_%s", n, filepath.Base(dst)))
		if err := os.WriteFile(f, src, 0o644); err != nil {
			return nil, err
		}
		replace[dst] = f
	}
	ovJSON, _ := json.Marshal(map[string]interface{}{"Replace": replace})
	ovFile := filepath.Join(tmp, "overlay.json")
	os.WriteFile(ovFile, ovJSON, 0o644)
	casesFile := filepath.Join(tmp, "cases.json")
	cb, _ := json.Marshal(cases)
	os.WriteFile(casesFile, cb, 0o644)
	resFile := filepath.Join(tmp, "results.jsonl")
	args := []string{"test", "-vet=off", "-count=1", "-run", "^TestVerifReplay$", "-overlay", ovFile, "-timeout", "20m"}
	if race {
		args = append(args, "-race")
	}
	args = append(args, "./"+pkgDir)
	cmd := exec.Command("go", args...)
	cmd.Dir = repoDir()
	cmd.Env = append(os.Environ(), "GOFLAGS=-mod=mod", "GOPROXY=off", "GOSUMDB=off", "GOTOOLCHAIN=local",
		"VERIF_CASES="+casesFile, "VERIF_RESULTS="+resFile)
	if !race {
		cmd.Env = append(cmd.Env, "CGO_ENABLED=0")
	}
	var outb bytes.Buffer
	cmd.Stdout = &outb
	cmd.Stderr = &outb
	start := time.Now()
	runErr := cmd.Run()
	_ = start
	data, rerr := os.ReadFile(resFile)
	var results []nativeResult
	if rerr == nil {
		dec := json.NewDecoder(bytes.NewReader(data))
		for dec.More() {
			var r nativeResult
			if err := dec.Decode(&r); err != nil {
				break
			}
			results = append(results, r)
		}
	}
	if strings.Contains(outb.String(), "[build failed]") || strings.Contains(outb.String(), "[setup failed]") {
		return nil, fmt.Errorf("native harness build failed:\n%s", tail(outb.String(), 1500))
	}
	if len(results) < len(cases) {
		// the test binary died (fatal error such as a concurrent map write, or a race report
		// with halt_on_error): attribute it to the first case without a result
		if len(results) == len(cases)-1 || runErr != nil {
			msg := tail(outb.String(), 600)
			r := nativeResult{Outcome: "panic", Msg: "test binary terminated: " + msg}
			if strings.Contains(outb.String(), "DATA RACE") {
				r.Outcome = "race"
				r.Race = true
			} else if strings.Contains(outb.String(), "all goroutines are asleep") {
				r.Outcome = "deadlock"
			}
			results = append(results, r)
		}
		if len(results) < len(cases) {
			if len(cases)-len(results) > 0 && len(results) > 0 {
				// re-run the remaining cases
				rest, err := runNative(pkgDir, cases[len(results):], race)
				if err != nil {
					return nil, err
				}
				return append(results, rest...), nil
			}
			return nil, fmt.Errorf("go test produced %d of %d results: %v\n%s", len(results), len(cases), runErr, tail(outb.String(), 2000))
		}
	}
	if race && strings.Contains(outb.String(), "DATA RACE") {
		for k := range results {
			results[k].Race = true
		}
	}
	return results, nil
}

func tail(s string, n int) string {
	if len(s) > n {
		return "..." + s[len(s)-n:]
	}
	return s
}
