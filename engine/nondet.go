// The harness API: bodyless v* functions declared in harness files, intercepted here.
package main

import (
	"fmt"
	"go/types"
)

var harnessAPI map[string]externalFn

func (i *interpreter) fresh(w uint8, k types.BasicKind) *sym {
	if i.initMode {
		panic("nondet value requested during package initialisation")
	}
	p := i.p
	name := fmt.Sprintf("n%d_%d", p.nvars, w)
	p.nvars++
	t := i.ts.Var(name, w)
	p.vars = append(p.vars, t)
	return &sym{t, k}
}

// freshEnv creates a symbolic value on behalf of an environment stub (random source, clock):
// it is solver-quantified like any other input but is not part of the replay vector, because
// the native run draws it from the real environment.
func (i *interpreter) freshEnv(w uint8, k types.BasicKind) *sym {
	s := i.fresh(w, k)
	if i.p.envVars == nil {
		i.p.envVars = map[string]bool{}
	}
	i.p.envVars[s.t.name] = true
	return s
}

func boolTerm(i *interpreter, v value) *Term { return i.term(v, types.Bool) }

func asStr(v value) string {
	if s, ok := v.(string); ok {
		return s
	}
	return toString(v)
}

func (i *interpreter) choice(n int64) int64 {
	if n <= 0 {
		i.abort(abInfeasible, "vChoice(0)")
	}
	if n == 1 {
		// still consumes a nondet slot so that replay vectors line up
		s := i.fresh(16, types.Uint16)
		i.assume(i.ts.Eq(s.t, i.ts.Const(16, 0)))
		return 0
	}
	s := i.fresh(16, types.Uint16)
	i.assume(i.ts.Bin(OpUlt, s.t, i.ts.Const(16, uint64(n))))
	return int64(i.concretize(s.t, "vChoice"))
}

func init() {
	mkInt := func(w uint8, k types.BasicKind) externalFn {
		return func(fr *frame, a []value) value { return fr.i.fresh(w, k) }
	}
	harnessAPI = map[string]externalFn{
		"vU8":   mkInt(8, types.Uint8),
		"vU16":  mkInt(16, types.Uint16),
		"vU32":  mkInt(32, types.Uint32),
		"vU64":  mkInt(64, types.Uint64),
		"vI8":   mkInt(8, types.Int8),
		"vI16":  mkInt(16, types.Int16),
		"vI32":  mkInt(32, types.Int32),
		"vI64":  mkInt(64, types.Int64),
		"vInt":  mkInt(64, types.Int),
		"vBool": mkInt(0, types.Bool),
		"vF64":  mkInt(64, types.Float64),
		"vBytes": func(fr *frame, a []value) value {
			n := fr.i.concreteInt(a[0], "vBytes length")
			b := make([]value, n)
			for k := range b {
				b[k] = fr.i.fresh(8, types.Uint8)
			}
			return b
		},
		"vStr": func(fr *frame, a []value) value {
			n := fr.i.concreteInt(a[0], "vStr length")
			b := make([]value, n)
			for k := range b {
				b[k] = fr.i.fresh(8, types.Uint8)
			}
			return mkStr(b)
		},
		"vChoice": func(fr *frame, a []value) value {
			return int(fr.i.choice(fr.i.concreteInt(a[0], "vChoice n")))
		},
		"vRange": func(fr *frame, a []value) value {
			lo, hi := fr.i.concreteInt(a[0], "vRange lo"), fr.i.concreteInt(a[1], "vRange hi")
			return int(lo + fr.i.choice(hi-lo+1))
		},
		// vPattern(n, seed): n concrete bytes b[i] = byte(i*13+seed), produced natively
		"vPattern": func(fr *frame, a []value) value {
			n := fr.i.concreteInt(a[0], "vPattern length")
			seed := fr.i.concreteInt(a[1], "vPattern seed")
			b := make([]value, n)
			for k := range b {
				b[k] = uint8(int64(k)*13 + seed)
			}
			return b
		},
		"vTier": func(fr *frame, a []value) value { return fr.i.p.tier },
		// vCost: the work done so far on this path under the engine's cost model: SSA instructions
		// interpreted plus elements moved by append/copy (natively: nanoseconds of wall time)
		"vCost": func(fr *frame, a []value) value { return int(fr.i.steps + fr.i.copyCost) },
		// vScale(k): 1 in the engine, k in the native replay (sizes and repetitions that only the
		// native run can afford)
		"vScale": func(fr *frame, a []value) value { return 1 },
		"vSchedPoint": func(fr *frame, a []value) value { return nil }, // native-only schedule perturbation; the engine switches at acquiring operations
		"vAssume": func(fr *frame, a []value) value {
			fr.i.assume(boolTerm(fr.i, a[0]))
			return nil
		},
		"vAssert": func(fr *frame, a []value) value {
			fr.i.assert(boolTerm(fr.i, a[0]), asStr(a[1]), "")
			return nil
		},
		"vAssertNative": func(fr *frame, a []value) value {
			fr.i.assert(boolTerm(fr.i, a[0]), asStr(a[2]), "")
			return nil
		},
		"vKnown": func(fr *frame, a []value) value {
			fr.i.assert(boolTerm(fr.i, a[1]), asStr(a[2]), asStr(a[0]))
			return nil
		},
		"vReach": func(fr *frame, a []value) value {
			if !fr.i.p.replaying() {
				fr.i.p.reached[asStr(a[0])] = true
			}
			return nil
		},
		"vObserve": func(fr *frame, a []value) value {
			p := fr.i.p
			if len(p.obsVals) < 64 {
				p.obsTags = append(p.obsTags, asStr(a[0]))
				p.obsVals = append(p.obsVals, append([]value(nil), a[1].([]value)...))
			}
			return nil
		},
		"vExpectPanic": func(fr *frame, a []value) (res value) {
			res = false
			func() {
				defer func() {
					if r := recover(); r != nil {
						if isEnginePanic(r) {
							panic(r)
						}
						if _, ok := r.(runtimeError); !ok {
							if _, ok := r.(targetPanic); !ok {
								if e, ok := r.(error); !ok || !isTargetRuntimeError(e) {
									panic(r)
								}
							}
						}
						res = true
					}
				}()
				call(fr.i, fr, 0, a[0], nil)
			}()
			return res
		},
		"vAnd":     func(fr *frame, a []value) value { return fr.i.and(a[0], a[1]) },
		"vOr":      func(fr *frame, a []value) value { return fr.i.or(a[0], a[1]) },
		"vNot":     func(fr *frame, a []value) value { return fr.i.not(a[0]) },
		"vImplies": func(fr *frame, a []value) value { return fr.i.or(fr.i.not(a[0]), a[1]) },
		"vIteU8":   vIte(types.Uint8),
		"vIteU16":  vIte(types.Uint16),
		"vIteU32":  vIte(types.Uint32),
		"vIteU64":  vIte(types.Uint64),
		"vIteInt":  vIte(types.Int),
		"vIteI64":  vIte(types.Int64),
		"vIteF64":  vIte(types.Float64),
		"vEqBytes": func(fr *frame, a []value) value { return bytesEqual(fr.i, a[0].([]value), a[1].([]value)) },
		"vEqStr":   func(fr *frame, a []value) value { return strEq(fr.i, a[0], a[1]) },
		// vConcrete reports whether a scalar is concrete on this path (harness diagnostics)
		"vIsSym": func(fr *frame, a []value) value { return isSym(a[0]) },
	}
}

func isTargetRuntimeError(e error) bool {
	msg := e.Error()
	for _, s := range []string{"index out of range", "slice bounds out of range", "nil pointer dereference", "integer divide by zero", "makeslice", "nil map"} {
		if contains(msg, s) {
			return true
		}
	}
	return false
}

func contains(s, sub string) bool {
	for k := 0; k+len(sub) <= len(s); k++ {
		if s[k:k+len(sub)] == sub {
			return true
		}
	}
	return false
}

func vIte(k types.BasicKind) externalFn {
	return func(fr *frame, a []value) value {
		i := fr.i
		if c, ok := a[0].(bool); ok {
			if c {
				return a[1]
			}
			return a[2]
		}
		return i.mkVal(i.ts.Ite(boolTerm(i, a[0]), i.term(a[1], k), i.term(a[2], k)), k)
	}
}

// formatObserve renders a vObserve record under a model exactly as the native
// implementation does (tag + ":" + " %v" per value). ok=false when a value cannot be
// rendered faithfully (named types with methods, pointers, ...).
func (i *interpreter) formatObserve(tag string, vals []value, m Model) (string, bool) {
	s := tag + ":"
	for _, v := range vals {
		if ifc, ok := v.(iface); ok {
			if ifc.t == nil {
				s += " <nil>"
				continue
			}
			if n, ok := ifc.t.(*types.Named); ok && n.NumMethods() > 0 {
				return "", false
			}
			v = ifc.v
		}
		nv, ok := i.nativeOf(v, m)
		if !ok {
			return "", false
		}
		s += " " + fmt.Sprintf("%v", nv)
	}
	return s, true
}

func (i *interpreter) nativeOf(v value, m Model) (interface{}, bool) {
	switch v := v.(type) {
	case *sym:
		if v.k == types.Float64 {
			return nil, false // NaN payload printing differs; not compared
		}
		return fromBits(v.k, i.ts.Eval(v.t, m)), true
	case bool, int, int8, int16, int32, int64, uint, uint8, uint16, uint32, uint64, uintptr, string:
		return v, true
	case sstr:
		b := make([]byte, len(v.b))
		for k, c := range v.b {
			x, ok := i.nativeOf(c, m)
			if !ok {
				return nil, false
			}
			b[k] = x.(uint8)
		}
		return string(b), true
	case []value:
		if v == nil {
			return []byte(nil), true
		}
		b := make([]byte, len(v))
		for k, c := range v {
			x, ok := i.nativeOf(c, m)
			if !ok {
				return nil, false
			}
			u, ok := x.(uint8)
			if !ok {
				return nil, false
			}
			b[k] = u
		}
		return b, true
	}
	return nil, false
}
