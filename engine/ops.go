// Copyright 2013 The Go Authors. All rights reserved.
// Use of this source code is governed by a BSD-style
// license that can be found in the LICENSE file.

package main

import (
	"bytes"
	"fmt"
	"go/constant"
	"go/token"
	"go/types"
	"os"
	"unsafe"

	"golang.org/x/tools/go/ssa"
)

// If the target program panics, the interpreter panics with this type.
type targetPanic struct {
	v value
}

func (p targetPanic) String() string {
	return toString(p.v)
}

// If the target program calls exit, the interpreter panics with this type.
type exitPanic int

// constValue returns the value of the constant with the
// dynamic type tag appropriate for c.Type().
func constValue(c *ssa.Const) value {
	if c.Value == nil {
		return zero(c.Type()) // typed zero
	}
	// c is not a type parameter so it's underlying type is basic.

	if t, ok := c.Type().Underlying().(*types.Basic); ok {
		// TODO(adonovan): eliminate untyped constants from SSA form.
		switch t.Kind() {
		case types.Bool, types.UntypedBool:
			return constant.BoolVal(c.Value)
		case types.Int, types.UntypedInt:
			// Assume sizeof(int) is same on host and target.
			return int(c.Int64())
		case types.Int8:
			return int8(c.Int64())
		case types.Int16:
			return int16(c.Int64())
		case types.Int32, types.UntypedRune:
			return int32(c.Int64())
		case types.Int64:
			return c.Int64()
		case types.Uint:
			// Assume sizeof(uint) is same on host and target.
			return uint(c.Uint64())
		case types.Uint8:
			return uint8(c.Uint64())
		case types.Uint16:
			return uint16(c.Uint64())
		case types.Uint32:
			return uint32(c.Uint64())
		case types.Uint64:
			return c.Uint64()
		case types.Uintptr:
			// Assume sizeof(uintptr) is same on host and target.
			return uintptr(c.Uint64())
		case types.Float32:
			return float32(c.Float64())
		case types.Float64, types.UntypedFloat:
			return c.Float64()
		case types.Complex64:
			return complex64(c.Complex128())
		case types.Complex128, types.UntypedComplex:
			return c.Complex128()
		case types.String, types.UntypedString:
			if c.Value.Kind() == constant.String {
				return constant.StringVal(c.Value)
			}
			return string(rune(c.Int64()))
		}
	}

	panic(fmt.Sprintf("constValue: %s", c))
}

// fitsInt returns true if x fits in type int according to sizes.
func fitsInt(x int64, sizes types.Sizes) bool {
	intSize := sizes.Sizeof(types.Typ[types.Int])
	if intSize < sizes.Sizeof(types.Typ[types.Int64]) {
		maxInt := int64(1)<<((intSize*8)-1) - 1
		minInt := -int64(1) << ((intSize * 8) - 1)
		return minInt <= x && x <= maxInt
	}
	return true
}

// asInt64 converts x, which must be an integer, to an int64.
//
// Callers that need a value directly usable as an int should combine this with fitsInt().
func asInt64(x value) int64 {
	switch x := x.(type) {
	case int:
		return int64(x)
	case int8:
		return int64(x)
	case int16:
		return int64(x)
	case int32:
		return int64(x)
	case int64:
		return x
	case uint:
		return int64(x)
	case uint8:
		return int64(x)
	case uint16:
		return int64(x)
	case uint32:
		return int64(x)
	case uint64:
		return int64(x)
	case uintptr:
		return int64(x)
	}
	panic(fmt.Sprintf("cannot convert %T to int64", x))
}

// asUint64 converts x, which must be an unsigned integer, to a uint64
// suitable for use as a bitwise shift count.
func asUint64(x value) uint64 {
	switch x := x.(type) {
	case uint:
		return uint64(x)
	case uint8:
		return uint64(x)
	case uint16:
		return uint64(x)
	case uint32:
		return uint64(x)
	case uint64:
		return x
	case uintptr:
		return uint64(x)
	}
	panic(fmt.Sprintf("cannot convert %T to uint64", x))
}

// asUnsigned returns the value of x, which must be an integer type, as its equivalent unsigned type,
// and returns true if x is non-negative.
func asUnsigned(x value) (value, bool) {
	switch x := x.(type) {
	case int:
		return uint(x), x >= 0
	case int8:
		return uint8(x), x >= 0
	case int16:
		return uint16(x), x >= 0
	case int32:
		return uint32(x), x >= 0
	case int64:
		return uint64(x), x >= 0
	case uint, uint8, uint32, uint64, uintptr:
		return x, true
	}
	panic(fmt.Sprintf("cannot convert %T to unsigned", x))
}

// zero returns a new "zero" value of the specified type.
func zero(t types.Type) value {
	switch t := t.(type) {
	case *types.Basic:
		if t.Kind() == types.UntypedNil {
			panic("untyped nil has no zero value")
		}
		if t.Info()&types.IsUntyped != 0 {
			// TODO(adonovan): make it an invariant that
			// this is unreachable.  Currently some
			// constants have 'untyped' types when they
			// should be defaulted by the typechecker.
			t = types.Default(t).(*types.Basic)
		}
		switch t.Kind() {
		case types.Bool:
			return false
		case types.Int:
			return int(0)
		case types.Int8:
			return int8(0)
		case types.Int16:
			return int16(0)
		case types.Int32:
			return int32(0)
		case types.Int64:
			return int64(0)
		case types.Uint:
			return uint(0)
		case types.Uint8:
			return uint8(0)
		case types.Uint16:
			return uint16(0)
		case types.Uint32:
			return uint32(0)
		case types.Uint64:
			return uint64(0)
		case types.Uintptr:
			return uintptr(0)
		case types.Float32:
			return float32(0)
		case types.Float64:
			return float64(0)
		case types.Complex64:
			return complex64(0)
		case types.Complex128:
			return complex128(0)
		case types.String:
			return ""
		case types.UnsafePointer:
			return unsafe.Pointer(nil)
		default:
			panic(fmt.Sprint("zero for unexpected type:", t))
		}
	case *types.Pointer:
		return (*value)(nil)
	case *types.Array:
		a := make(array, t.Len())
		for i := range a {
			a[i] = zero(t.Elem())
		}
		return a
	case *types.Named:
		return zero(t.Underlying())
	case *types.Alias:
		return zero(types.Unalias(t))
	case *types.Interface:
		return iface{} // nil type, methodset and value
	case *types.Slice:
		return []value(nil)
	case *types.Struct:
		s := make(structure, t.NumFields())
		for i := range s {
			s[i] = zero(t.Field(i).Type())
		}
		return s
	case *types.Tuple:
		if t.Len() == 1 {
			return zero(t.At(0).Type())
		}
		s := make(tuple, t.Len())
		for i := range s {
			s[i] = zero(t.At(i).Type())
		}
		return s
	case *types.Chan:
		return (*channel)(nil)
	case *types.Map:
		return (*omap)(nil)
	case *types.Signature:
		return (*ssa.Function)(nil)
	}
	panic(fmt.Sprint("zero: unexpected ", t))
}

// slice returns x[lo:hi:max].  Any of lo, hi and max may be nil.
func slice(i *interpreter, x, lo, hi, max value) value {
	var Len, Cap int
	switch x := x.(type) {
	case string:
		Len = len(x)
		Cap = Len
	case sstr:
		Len = len(x.b)
		Cap = Len
	case opaqueStr:
		i.abort(abUnsupported, "slicing an opaque (formatted) string")
	case []value:
		Len = len(x)
		Cap = cap(x)
	case *value: // *array
		if x == nil {
			panic(runtimeError("invalid memory address or nil pointer dereference"))
		}
		a := (*x).(array)
		Len = len(a)
		Cap = cap(a)
	}

	// Symbolic bounds: decide the bounds check as one condition, then concretise.
	if isSym(lo) || isSym(hi) || isSym(max) {
		ts := i.ts
		tl, th, tm := ts.Const(64, 0), ts.Const(64, uint64(Len)), ts.Const(64, uint64(Cap))
		ext := func(v value) *Term {
			k := valueKind(v)
			t := i.term(v, k)
			if kindSigned(k) {
				return ts.SExt(t, 64)
			}
			return ts.ZExt(t, 64)
		}
		if lo != nil {
			tl = ext(lo)
		}
		if hi != nil {
			th = ext(hi)
		}
		if max != nil {
			tm = ext(max)
		}
		ok := ts.And(ts.Bin(OpSle, ts.Const(64, 0), tl), ts.And(ts.Bin(OpSle, tl, th), ts.And(ts.Bin(OpSle, th, tm), ts.Bin(OpSle, tm, ts.Const(64, uint64(Cap))))))
		if !i.branch(ok) {
			panic(runtimeError("slice bounds out of range [symbolic]"))
		}
		if lo != nil {
			lo = i.concreteInt(lo, "slice low bound")
		}
		if hi != nil {
			hi = i.concreteInt(hi, "slice high bound")
		}
		if max != nil {
			max = i.concreteInt(max, "slice max bound")
		}
	}

	l := int64(0)
	if lo != nil {
		l = asInt64(lo)
	}

	h := int64(Len)
	if hi != nil {
		h = asInt64(hi)
	}

	m := int64(Cap)
	if max != nil {
		m = asInt64(max)
	}
	if l < 0 || l > h || h > m || m > int64(Cap) {
		panic(runtimeError(fmt.Sprintf("slice bounds out of range [%d:%d:%d] with capacity %d", l, h, m, Cap)))
	}

	switch x := x.(type) {
	case string:
		return x[l:h]
	case sstr:
		return mkStr(x.b[l:h])
	case []value:
		return x[l:h:m]
	case *value: // *array
		a := (*x).(array)
		return []value(a)[l:h:m]
	}
	panic(fmt.Sprintf("slice: unexpected X type: %T", x))
}

// lookup returns x[idx] where x is a map.
func lookup(i *interpreter, instr *ssa.Lookup, x, idx value) value {
	switch x := x.(type) { // map or string
	case *omap:
		mt := instr.X.Type().Underlying().(*types.Map)
		var v value
		k := x.find(i, mt.Key(), idx)
		ok := k >= 0
		if ok {
			v = x.vals[k]
		} else {
			v = zero(mt.Elem())
		}
		if instr.CommaOk {
			v = tuple{v, ok}
		}
		return v
	case string:
		return x[i.indexCheck(idx, len(x))]
	case sstr:
		return i.indexScalar(x.b, idx)
	}
	panic(fmt.Sprintf("unexpected x type in Lookup: %T", x))
}

// binop implements all arithmetic and logical binary operators for
// numeric datatypes and strings.  Both operands must have identical
// dynamic type.
func binop(i *interpreter, op token.Token, t, yt types.Type, x, y value) value {
	if r, ok := i.ptrIntBinop(op, x, y); ok {
		return r
	}
	if isSym(x) || isSym(y) {
		return i.symBinop(op, t, yt, x, y)
	}
	if _, ok := x.(poison); ok {
		return x
	}
	if _, ok := y.(poison); ok {
		return y
	}
	if isStr(x) || isStr(y) {
		if r, ok := strBinop(i, op, x, y); ok {
			return r
		}
	}
	switch op {
	case token.ADD:
		switch x.(type) {
		case int:
			return x.(int) + y.(int)
		case int8:
			return x.(int8) + y.(int8)
		case int16:
			return x.(int16) + y.(int16)
		case int32:
			return x.(int32) + y.(int32)
		case int64:
			return x.(int64) + y.(int64)
		case uint:
			return x.(uint) + y.(uint)
		case uint8:
			return x.(uint8) + y.(uint8)
		case uint16:
			return x.(uint16) + y.(uint16)
		case uint32:
			return x.(uint32) + y.(uint32)
		case uint64:
			return x.(uint64) + y.(uint64)
		case uintptr:
			return x.(uintptr) + y.(uintptr)
		case float32:
			return x.(float32) + y.(float32)
		case float64:
			return x.(float64) + y.(float64)
		case complex64:
			return x.(complex64) + y.(complex64)
		case complex128:
			return x.(complex128) + y.(complex128)
		case string:
			return x.(string) + y.(string)
		}

	case token.SUB:
		switch x.(type) {
		case int:
			return x.(int) - y.(int)
		case int8:
			return x.(int8) - y.(int8)
		case int16:
			return x.(int16) - y.(int16)
		case int32:
			return x.(int32) - y.(int32)
		case int64:
			return x.(int64) - y.(int64)
		case uint:
			return x.(uint) - y.(uint)
		case uint8:
			return x.(uint8) - y.(uint8)
		case uint16:
			return x.(uint16) - y.(uint16)
		case uint32:
			return x.(uint32) - y.(uint32)
		case uint64:
			return x.(uint64) - y.(uint64)
		case uintptr:
			return x.(uintptr) - y.(uintptr)
		case float32:
			return x.(float32) - y.(float32)
		case float64:
			return x.(float64) - y.(float64)
		case complex64:
			return x.(complex64) - y.(complex64)
		case complex128:
			return x.(complex128) - y.(complex128)
		}

	case token.MUL:
		switch x.(type) {
		case int:
			return x.(int) * y.(int)
		case int8:
			return x.(int8) * y.(int8)
		case int16:
			return x.(int16) * y.(int16)
		case int32:
			return x.(int32) * y.(int32)
		case int64:
			return x.(int64) * y.(int64)
		case uint:
			return x.(uint) * y.(uint)
		case uint8:
			return x.(uint8) * y.(uint8)
		case uint16:
			return x.(uint16) * y.(uint16)
		case uint32:
			return x.(uint32) * y.(uint32)
		case uint64:
			return x.(uint64) * y.(uint64)
		case uintptr:
			return x.(uintptr) * y.(uintptr)
		case float32:
			return x.(float32) * y.(float32)
		case float64:
			return x.(float64) * y.(float64)
		case complex64:
			return x.(complex64) * y.(complex64)
		case complex128:
			return x.(complex128) * y.(complex128)
		}

	case token.QUO:
		switch x.(type) {
		case int:
			return x.(int) / y.(int)
		case int8:
			return x.(int8) / y.(int8)
		case int16:
			return x.(int16) / y.(int16)
		case int32:
			return x.(int32) / y.(int32)
		case int64:
			return x.(int64) / y.(int64)
		case uint:
			return x.(uint) / y.(uint)
		case uint8:
			return x.(uint8) / y.(uint8)
		case uint16:
			return x.(uint16) / y.(uint16)
		case uint32:
			return x.(uint32) / y.(uint32)
		case uint64:
			return x.(uint64) / y.(uint64)
		case uintptr:
			return x.(uintptr) / y.(uintptr)
		case float32:
			return x.(float32) / y.(float32)
		case float64:
			return x.(float64) / y.(float64)
		case complex64:
			return x.(complex64) / y.(complex64)
		case complex128:
			return x.(complex128) / y.(complex128)
		}

	case token.REM:
		switch x.(type) {
		case int:
			return x.(int) % y.(int)
		case int8:
			return x.(int8) % y.(int8)
		case int16:
			return x.(int16) % y.(int16)
		case int32:
			return x.(int32) % y.(int32)
		case int64:
			return x.(int64) % y.(int64)
		case uint:
			return x.(uint) % y.(uint)
		case uint8:
			return x.(uint8) % y.(uint8)
		case uint16:
			return x.(uint16) % y.(uint16)
		case uint32:
			return x.(uint32) % y.(uint32)
		case uint64:
			return x.(uint64) % y.(uint64)
		case uintptr:
			return x.(uintptr) % y.(uintptr)
		}

	case token.AND:
		switch x.(type) {
		case int:
			return x.(int) & y.(int)
		case int8:
			return x.(int8) & y.(int8)
		case int16:
			return x.(int16) & y.(int16)
		case int32:
			return x.(int32) & y.(int32)
		case int64:
			return x.(int64) & y.(int64)
		case uint:
			return x.(uint) & y.(uint)
		case uint8:
			return x.(uint8) & y.(uint8)
		case uint16:
			return x.(uint16) & y.(uint16)
		case uint32:
			return x.(uint32) & y.(uint32)
		case uint64:
			return x.(uint64) & y.(uint64)
		case uintptr:
			return x.(uintptr) & y.(uintptr)
		}

	case token.OR:
		switch x.(type) {
		case int:
			return x.(int) | y.(int)
		case int8:
			return x.(int8) | y.(int8)
		case int16:
			return x.(int16) | y.(int16)
		case int32:
			return x.(int32) | y.(int32)
		case int64:
			return x.(int64) | y.(int64)
		case uint:
			return x.(uint) | y.(uint)
		case uint8:
			return x.(uint8) | y.(uint8)
		case uint16:
			return x.(uint16) | y.(uint16)
		case uint32:
			return x.(uint32) | y.(uint32)
		case uint64:
			return x.(uint64) | y.(uint64)
		case uintptr:
			return x.(uintptr) | y.(uintptr)
		}

	case token.XOR:
		switch x.(type) {
		case int:
			return x.(int) ^ y.(int)
		case int8:
			return x.(int8) ^ y.(int8)
		case int16:
			return x.(int16) ^ y.(int16)
		case int32:
			return x.(int32) ^ y.(int32)
		case int64:
			return x.(int64) ^ y.(int64)
		case uint:
			return x.(uint) ^ y.(uint)
		case uint8:
			return x.(uint8) ^ y.(uint8)
		case uint16:
			return x.(uint16) ^ y.(uint16)
		case uint32:
			return x.(uint32) ^ y.(uint32)
		case uint64:
			return x.(uint64) ^ y.(uint64)
		case uintptr:
			return x.(uintptr) ^ y.(uintptr)
		}

	case token.AND_NOT:
		switch x.(type) {
		case int:
			return x.(int) &^ y.(int)
		case int8:
			return x.(int8) &^ y.(int8)
		case int16:
			return x.(int16) &^ y.(int16)
		case int32:
			return x.(int32) &^ y.(int32)
		case int64:
			return x.(int64) &^ y.(int64)
		case uint:
			return x.(uint) &^ y.(uint)
		case uint8:
			return x.(uint8) &^ y.(uint8)
		case uint16:
			return x.(uint16) &^ y.(uint16)
		case uint32:
			return x.(uint32) &^ y.(uint32)
		case uint64:
			return x.(uint64) &^ y.(uint64)
		case uintptr:
			return x.(uintptr) &^ y.(uintptr)
		}

	case token.SHL:
		u, ok := asUnsigned(y)
		if !ok {
			panic("negative shift amount")
		}
		y := asUint64(u)
		switch x.(type) {
		case int:
			return x.(int) << y
		case int8:
			return x.(int8) << y
		case int16:
			return x.(int16) << y
		case int32:
			return x.(int32) << y
		case int64:
			return x.(int64) << y
		case uint:
			return x.(uint) << y
		case uint8:
			return x.(uint8) << y
		case uint16:
			return x.(uint16) << y
		case uint32:
			return x.(uint32) << y
		case uint64:
			return x.(uint64) << y
		case uintptr:
			return x.(uintptr) << y
		}

	case token.SHR:
		u, ok := asUnsigned(y)
		if !ok {
			panic("negative shift amount")
		}
		y := asUint64(u)
		switch x.(type) {
		case int:
			return x.(int) >> y
		case int8:
			return x.(int8) >> y
		case int16:
			return x.(int16) >> y
		case int32:
			return x.(int32) >> y
		case int64:
			return x.(int64) >> y
		case uint:
			return x.(uint) >> y
		case uint8:
			return x.(uint8) >> y
		case uint16:
			return x.(uint16) >> y
		case uint32:
			return x.(uint32) >> y
		case uint64:
			return x.(uint64) >> y
		case uintptr:
			return x.(uintptr) >> y
		}

	case token.LSS:
		switch x.(type) {
		case int:
			return x.(int) < y.(int)
		case int8:
			return x.(int8) < y.(int8)
		case int16:
			return x.(int16) < y.(int16)
		case int32:
			return x.(int32) < y.(int32)
		case int64:
			return x.(int64) < y.(int64)
		case uint:
			return x.(uint) < y.(uint)
		case uint8:
			return x.(uint8) < y.(uint8)
		case uint16:
			return x.(uint16) < y.(uint16)
		case uint32:
			return x.(uint32) < y.(uint32)
		case uint64:
			return x.(uint64) < y.(uint64)
		case uintptr:
			return x.(uintptr) < y.(uintptr)
		case float32:
			return x.(float32) < y.(float32)
		case float64:
			return x.(float64) < y.(float64)
		case string:
			return x.(string) < y.(string)
		}

	case token.LEQ:
		switch x.(type) {
		case int:
			return x.(int) <= y.(int)
		case int8:
			return x.(int8) <= y.(int8)
		case int16:
			return x.(int16) <= y.(int16)
		case int32:
			return x.(int32) <= y.(int32)
		case int64:
			return x.(int64) <= y.(int64)
		case uint:
			return x.(uint) <= y.(uint)
		case uint8:
			return x.(uint8) <= y.(uint8)
		case uint16:
			return x.(uint16) <= y.(uint16)
		case uint32:
			return x.(uint32) <= y.(uint32)
		case uint64:
			return x.(uint64) <= y.(uint64)
		case uintptr:
			return x.(uintptr) <= y.(uintptr)
		case float32:
			return x.(float32) <= y.(float32)
		case float64:
			return x.(float64) <= y.(float64)
		case string:
			return x.(string) <= y.(string)
		}

	case token.EQL:
		return eqnil(i, t, x, y)

	case token.NEQ:
		return i.not(eqnil(i, t, x, y))

	case token.GTR:
		switch x.(type) {
		case int:
			return x.(int) > y.(int)
		case int8:
			return x.(int8) > y.(int8)
		case int16:
			return x.(int16) > y.(int16)
		case int32:
			return x.(int32) > y.(int32)
		case int64:
			return x.(int64) > y.(int64)
		case uint:
			return x.(uint) > y.(uint)
		case uint8:
			return x.(uint8) > y.(uint8)
		case uint16:
			return x.(uint16) > y.(uint16)
		case uint32:
			return x.(uint32) > y.(uint32)
		case uint64:
			return x.(uint64) > y.(uint64)
		case uintptr:
			return x.(uintptr) > y.(uintptr)
		case float32:
			return x.(float32) > y.(float32)
		case float64:
			return x.(float64) > y.(float64)
		case string:
			return x.(string) > y.(string)
		}

	case token.GEQ:
		switch x.(type) {
		case int:
			return x.(int) >= y.(int)
		case int8:
			return x.(int8) >= y.(int8)
		case int16:
			return x.(int16) >= y.(int16)
		case int32:
			return x.(int32) >= y.(int32)
		case int64:
			return x.(int64) >= y.(int64)
		case uint:
			return x.(uint) >= y.(uint)
		case uint8:
			return x.(uint8) >= y.(uint8)
		case uint16:
			return x.(uint16) >= y.(uint16)
		case uint32:
			return x.(uint32) >= y.(uint32)
		case uint64:
			return x.(uint64) >= y.(uint64)
		case uintptr:
			return x.(uintptr) >= y.(uintptr)
		case float32:
			return x.(float32) >= y.(float32)
		case float64:
			return x.(float64) >= y.(float64)
		case string:
			return x.(string) >= y.(string)
		}
	}
	panic(fmt.Sprintf("invalid binary op: %T %s %T", x, op, y))
}

// eqnil returns the comparison x == y using the equivalence relation
// appropriate for type t.
// If t is a reference type, at most one of x or y may be a nil value
// of that type.
func eqnil(i *interpreter, t types.Type, x, y value) value {
	switch t.Underlying().(type) {
	case *types.Map, *types.Signature, *types.Slice:
		// Since these types don't support comparison,
		// one of the operands must be a literal nil.
		switch x := x.(type) {
		case *omap:
			return (x != nil) == (y.(*omap) != nil)
		case *ssa.Function:
			switch y := y.(type) {
			case *ssa.Function:
				return (x != nil) == (y != nil)
			case *closure:
				return x != nil
			}
		case *closure:
			switch y := y.(type) {
			case *ssa.Function:
				return (x != nil) == (y != nil)
			case *closure:
				return (x != nil) == (y != nil)
			}
		case []value:
			return (x != nil) == (y.([]value) != nil)
		}
		panic(fmt.Sprintf("eqnil(%s): illegal dynamic type: %T", t, x))
	}

	return equalsV(i, t, x, y)
}

func unop(i *interpreter, instr *ssa.UnOp, x value) value {
	if s, ok := x.(*sym); ok && instr.Op != token.MUL && instr.Op != token.ARROW {
		return i.symUnop(instr.Op, s)
	}
	if _, ok := x.(poison); ok && instr.Op != token.MUL {
		return x
	}
	switch instr.Op {
	case token.ARROW: // receive
		v, ok := chanRecv(i, x.(*channel))
		if !ok {
			v = zero(instr.X.Type().Underlying().(*types.Chan).Elem())
		}
		if instr.CommaOk {
			v = tuple{v, ok}
		}
		return v
	case token.SUB:
		switch x := x.(type) {
		case int:
			return -x
		case int8:
			return -x
		case int16:
			return -x
		case int32:
			return -x
		case int64:
			return -x
		case uint:
			return -x
		case uint8:
			return -x
		case uint16:
			return -x
		case uint32:
			return -x
		case uint64:
			return -x
		case uintptr:
			return -x
		case float32:
			return -x
		case float64:
			return -x
		case complex64:
			return -x
		case complex128:
			return -x
		}
	case token.MUL:
		return i.loadAddr(deref(instr.X.Type()), x)
	case token.NOT:
		return !x.(bool)
	case token.XOR:
		switch x := x.(type) {
		case int:
			return ^x
		case int8:
			return ^x
		case int16:
			return ^x
		case int32:
			return ^x
		case int64:
			return ^x
		case uint:
			return ^x
		case uint8:
			return ^x
		case uint16:
			return ^x
		case uint32:
			return ^x
		case uint64:
			return ^x
		case uintptr:
			return ^x
		}
	}
	panic(fmt.Sprintf("invalid unary op %s %T", instr.Op, x))
}

// typeAssert checks whether dynamic type of itf is instr.AssertedType.
// It returns the extracted value on success, and panics on failure,
// unless instr.CommaOk, in which case it always returns a "value,ok" tuple.
func typeAssert(i *interpreter, instr *ssa.TypeAssert, itf iface) value {
	var v value
	err := ""
	if itf.t == nil {
		err = fmt.Sprintf("interface conversion: interface is nil, not %s", instr.AssertedType)

	} else if idst, ok := instr.AssertedType.Underlying().(*types.Interface); ok {
		v = itf
		err = checkInterface(i, idst, itf)

	} else if types.Identical(itf.t, instr.AssertedType) {
		v = itf.v // extract value

	} else {
		err = fmt.Sprintf("interface conversion: interface is %s, not %s", itf.t, instr.AssertedType)
	}
	// Note: if instr.Underlying==true ever becomes reachable from interp check that
	// types.Identical(itf.t.Underlying(), instr.AssertedType)

	if err != "" {
		if !instr.CommaOk {
			panic(runtimeError(err))
		}
		return tuple{zero(instr.AssertedType), false}
	}
	if instr.CommaOk {
		return tuple{v, true}
	}
	return v
}


// callBuiltin interprets a call to builtin fn with arguments args,
// returning its result.
func callBuiltin(caller *frame, callpos token.Pos, fn *ssa.Builtin, args []value) value {
	switch fn.Name() {
	case "append":
		if len(args) == 1 {
			return args[0]
		}
		if isStr(args[1]) {
			// append([]byte, ...string) []byte
			arg0 := args[0].([]value)
			sb := strBytes(args[1])
			caller.i.copyCost += int64(len(sb))
			return append(arg0, sb...)
		}
		// append([]T, ...[]T) []T
		caller.i.copyCost += int64(len(args[1].([]value)))
		return append(args[0].([]value), args[1].([]value)...)

	case "copy": // copy([]T, []T) int or copy([]byte, string) int
		src := args[1]
		if isStr(src) {
			src = strBytes(src)
		}
		n := copy(args[0].([]value), src.([]value))
		caller.i.copyCost += int64(n)
		return n

	case "close": // close(chan T)
		chanClose(caller.i, args[0].(*channel))
		return nil

	case "delete": // delete(map[K]value, K)
		m := args[0].(*omap)
		kt := fn.Type().(*types.Signature).Params().At(0).Type().Underlying().(*types.Map).Key()
		m.delete(caller.i, kt, args[1])
		return nil

	case "clear":
		switch m := args[0].(type) {
		case *omap:
			if m != nil {
				m.keys, m.vals = nil, nil
			}
		case []value:
			for k := range m {
				m[k] = zeroLike(m[k])
			}
		}
		return nil

	case "print", "println": // print(any, ...)
		ln := fn.Name() == "println"
		var buf bytes.Buffer
		for i, arg := range args {
			if i > 0 && ln {
				buf.WriteRune(' ')
			}
			buf.WriteString(toString(arg))
		}
		if ln {
			buf.WriteRune('\n')
		}
		os.Stderr.Write(buf.Bytes())
		return nil

	case "len":
		switch x := args[0].(type) {
		case string:
			return len(x)
		case sstr:
			return len(x.b)
		case opaqueStr:
			caller.i.abort(abUnsupported, "len of an opaque (formatted) string")
		case array:
			return len(x)
		case *value:
			return len((*x).(array))
		case []value:
			return len(x)
		case *omap:
			return x.len()
		case *channel:
			if x == nil {
				return 0
			}
			return len(x.buf)
		default:
			panic(fmt.Sprintf("len: illegal operand: %T", x))
		}

	case "cap":
		switch x := args[0].(type) {
		case array:
			return cap(x)
		case *value:
			return cap((*x).(array))
		case []value:
			return cap(x)
		case *channel:
			if x == nil {
				return 0
			}
			return x.capacity
		default:
			panic(fmt.Sprintf("cap: illegal operand: %T", x))
		}

	case "min":
		return foldLeft(vmin(caller.i), args)
	case "max":
		return foldLeft(vmax(caller.i), args)

	case "real":
		switch c := args[0].(type) {
		case complex64:
			return real(c)
		case complex128:
			return real(c)
		default:
			panic(fmt.Sprintf("real: illegal operand: %T", c))
		}

	case "imag":
		switch c := args[0].(type) {
		case complex64:
			return imag(c)
		case complex128:
			return imag(c)
		default:
			panic(fmt.Sprintf("imag: illegal operand: %T", c))
		}

	case "complex":
		switch f := args[0].(type) {
		case float32:
			return complex(f, args[1].(float32))
		case float64:
			return complex(f, args[1].(float64))
		default:
			panic(fmt.Sprintf("complex: illegal operand: %T", f))
		}

	case "panic":
		// ssa.Panic handles most cases; this is only for "go
		// panic" or "defer panic".
		panic(targetPanic{args[0]})

	case "recover":
		return doRecover(caller)

	case "ssa:wrapnilchk":
		recv := args[0]
		if recv.(*value) == nil {
			recvType := args[1]
			methodName := args[2]
			panic(runtimeError(fmt.Sprintf("value method (%s).%s called using nil *%s pointer",
				recvType, methodName, recvType)))
		}
		return recv

	case "ssa:deferstack":
		return &caller.defers
	}

	panic("unknown built-in: " + fn.Name())
}

func rangeIter(i *interpreter, x value, t types.Type) iter {
	switch x := x.(type) {
	case *omap:
		if x == nil {
			return &omapIter{}
		}
		return &omapIter{keys: append([]value(nil), x.keys...), vals: append([]value(nil), x.vals...)}
	case string:
		return &stringIter{s: x}
	case sstr:
		i.abort(abUnsupported, "range over a string with symbolic bytes (UTF-8 decoding)")
	case opaqueStr:
		i.abort(abUnsupported, "range over an opaque (formatted) string")
	}
	panic(fmt.Sprintf("cannot range over %T", x))
}

// widen widens a basic typed value x to the widest type of its
// category, one of:
//
//	bool, int64, uint64, float64, complex128, string.
//
// This is inefficient but reduces the size of the cross-product of
// cases we have to consider.
func widen(x value) value {
	switch y := x.(type) {
	case bool, int64, uint64, float64, complex128, string, unsafe.Pointer:
		return x
	case int:
		return int64(y)
	case int8:
		return int64(y)
	case int16:
		return int64(y)
	case int32:
		return int64(y)
	case uint:
		return uint64(y)
	case uint8:
		return uint64(y)
	case uint16:
		return uint64(y)
	case uint32:
		return uint64(y)
	case uintptr:
		return uint64(y)
	case float32:
		return float64(y)
	case complex64:
		return complex128(y)
	}
	panic(fmt.Sprintf("cannot widen %T", x))
}

// conv converts the value x of type t_src to type t_dst and returns
// the result.
// Possible cases are described with the ssa.Convert operator.
func conv(i *interpreter, t_dst, t_src types.Type, x value) value {
	ut_src := t_src.Underlying()
	ut_dst := t_dst.Underlying()

	if r, ok := i.convUnsafe(t_dst, t_src, x); ok {
		return r
	}
	if s, ok := x.(*sym); ok {
		return i.symConv(basicKind(t_dst), s)
	}
	if _, ok := x.(poison); ok {
		return x
	}
	if _, ok := x.(opaqueStr); ok {
		if b, ok := ut_dst.(*types.Basic); ok && b.Kind() == types.String {
			return x
		}
		i.abort(abUnsupported, "conversion of an opaque (formatted) string")
	}
	if ss, ok := x.(sstr); ok {
		switch ut_dst := ut_dst.(type) {
		case *types.Basic:
			if ut_dst.Kind() == types.String {
				return x
			}
		case *types.Slice:
			if ut_dst.Elem().Underlying().(*types.Basic).Kind() == types.Byte {
				return append([]value(nil), ss.b...)
			}
			i.abort(abUnsupported, "[]rune(string with symbolic bytes)")
		}
	}

	// Destination type is not an "untyped" type.
	if b, ok := ut_dst.(*types.Basic); ok && b.Info()&types.IsUntyped != 0 {
		panic("oops: conversion to 'untyped' type: " + b.String())
	}

	// Nor is it an interface type.
	if _, ok := ut_dst.(*types.Interface); ok {
		if _, ok := ut_src.(*types.Interface); ok {
			panic("oops: Convert should be ChangeInterface")
		} else {
			panic("oops: Convert should be MakeInterface")
		}
	}

	// Remaining conversions:
	//    + untyped string/number/bool constant to a specific
	//      representation.
	//    + conversions between non-complex numeric types.
	//    + conversions between complex numeric types.
	//    + integer/[]byte/[]rune -> string.
	//    + string -> []byte/[]rune.
	//
	// All are treated the same: first we extract the value to the
	// widest representation (int64, uint64, float64, complex128,
	// or string), then we convert it to the desired type.

	switch ut_src := ut_src.(type) {
	case *types.Pointer:
		switch ut_dst := ut_dst.(type) {
		case *types.Basic:
			// *value to unsafe.Pointer?
			if ut_dst.Kind() == types.UnsafePointer {
				return unsafe.Pointer(x.(*value))
			}
		}

	case *types.Slice:
		// []byte or []rune -> string
		switch ut_src.Elem().Underlying().(*types.Basic).Kind() {
		case types.Byte:
			return mkStr(x.([]value))

		case types.Rune:
			x := x.([]value)
			r := make([]rune, 0, len(x))
			for i := range x {
				r = append(r, x[i].(rune))
			}
			return string(r)
		}

	case *types.Basic:
		x = widen(x)

		// integer -> string?
		if ut_src.Info()&types.IsInteger != 0 {
			if ut_dst, ok := ut_dst.(*types.Basic); ok && ut_dst.Kind() == types.String {
				return fmt.Sprintf("%c", x)
			}
		}

		// string -> []rune, []byte or string?
		if s, ok := x.(string); ok {
			switch ut_dst := ut_dst.(type) {
			case *types.Slice:
				var res []value
				switch ut_dst.Elem().Underlying().(*types.Basic).Kind() {
				case types.Rune:
					for _, r := range []rune(s) {
						res = append(res, r)
					}
					return res
				case types.Byte:
					for _, b := range []byte(s) {
						res = append(res, b)
					}
					return res
				}
			case *types.Basic:
				if ut_dst.Kind() == types.String {
					return x.(string)
				}
			}
			break // fail: no other conversions for string
		}

		// unsafe.Pointer -> *value
		if ut_src.Kind() == types.UnsafePointer {
			// TODO(adonovan): this is wrong and cannot
			// really be fixed with the current design.
			//
			// return (*value)(x.(unsafe.Pointer))
			// creates a new pointer of a different
			// type but the underlying interface value
			// knows its "true" type and so cannot be
			// meaningfully used through the new pointer.
			//
			// To make this work, the interpreter needs to
			// simulate the memory layout of a real
			// compiled implementation.
			//
			// To at least preserve type-safety, we'll
			// just return the zero value of the
			// destination type.
			return zero(t_dst)
		}

		// Conversions between complex numeric types?
		if ut_src.Info()&types.IsComplex != 0 {
			switch ut_dst.(*types.Basic).Kind() {
			case types.Complex64:
				return complex64(x.(complex128))
			case types.Complex128:
				return x.(complex128)
			}
			break // fail: no other conversions for complex
		}

		// Conversions between non-complex numeric types?
		if ut_src.Info()&types.IsNumeric != 0 {
			kind := ut_dst.(*types.Basic).Kind()
			switch x := x.(type) {
			case int64: // signed integer -> numeric?
				switch kind {
				case types.Int:
					return int(x)
				case types.Int8:
					return int8(x)
				case types.Int16:
					return int16(x)
				case types.Int32:
					return int32(x)
				case types.Int64:
					return int64(x)
				case types.Uint:
					return uint(x)
				case types.Uint8:
					return uint8(x)
				case types.Uint16:
					return uint16(x)
				case types.Uint32:
					return uint32(x)
				case types.Uint64:
					return uint64(x)
				case types.Uintptr:
					return uintptr(x)
				case types.Float32:
					return float32(x)
				case types.Float64:
					return float64(x)
				}

			case uint64: // unsigned integer -> numeric?
				switch kind {
				case types.Int:
					return int(x)
				case types.Int8:
					return int8(x)
				case types.Int16:
					return int16(x)
				case types.Int32:
					return int32(x)
				case types.Int64:
					return int64(x)
				case types.Uint:
					return uint(x)
				case types.Uint8:
					return uint8(x)
				case types.Uint16:
					return uint16(x)
				case types.Uint32:
					return uint32(x)
				case types.Uint64:
					return uint64(x)
				case types.Uintptr:
					return uintptr(x)
				case types.Float32:
					return float32(x)
				case types.Float64:
					return float64(x)
				}

			case float64: // floating point -> numeric?
				switch kind {
				case types.Int:
					return int(x)
				case types.Int8:
					return int8(x)
				case types.Int16:
					return int16(x)
				case types.Int32:
					return int32(x)
				case types.Int64:
					return int64(x)
				case types.Uint:
					return uint(x)
				case types.Uint8:
					return uint8(x)
				case types.Uint16:
					return uint16(x)
				case types.Uint32:
					return uint32(x)
				case types.Uint64:
					return uint64(x)
				case types.Uintptr:
					return uintptr(x)
				case types.Float32:
					return float32(x)
				case types.Float64:
					return float64(x)
				}
			}
		}
	}

	panic(fmt.Sprintf("unsupported conversion: %s  -> %s, dynamic type %T", t_src, t_dst, x))
}

// sliceToArrayPointer converts the value x of type slice to type t_dst
// a pointer to array and returns the result.
func sliceToArrayPointer(t_dst, t_src types.Type, x value) value {
	if _, ok := t_src.Underlying().(*types.Slice); ok {
		if ptr, ok := t_dst.Underlying().(*types.Pointer); ok {
			if arr, ok := ptr.Elem().Underlying().(*types.Array); ok {
				x := x.([]value)
				if arr.Len() > int64(len(x)) {
					panic("array length is greater than slice length")
				}
				if x == nil {
					return zero(t_dst)
				}
				v := value(array(x[:arr.Len()]))
				return &v
			}
		}
	}

	panic(fmt.Sprintf("unsupported conversion: %s  -> %s, dynamic type %T", t_src, t_dst, x))
}

// checkInterface checks that the method set of x implements the
// interface itype.
// On success it returns "", on failure, an error message.
func checkInterface(i *interpreter, itype *types.Interface, x iface) string {
	if meth, _ := types.MissingMethod(x.t, itype, true); meth != nil {
		return fmt.Sprintf("interface conversion: %v is not %v: missing method %s",
			x.t, itype, meth.Name())
	}
	return "" // ok
}

func foldLeft(op func(value, value) value, args []value) value {
	x := args[0]
	for _, arg := range args[1:] {
		x = op(x, arg)
	}
	return x
}

func vmin(i *interpreter) func(x, y value) value {
	return func(x, y value) value {
		switch x := x.(type) {
		case float32:
			return fmin(x, y.(float32))
		case float64:
			if yf, ok := y.(float64); ok {
				return fmin(x, yf)
			}
		}
		k := kindOfValue(x, y)
		if isSym(x) || isSym(y) {
			c := i.symBinop(token.LSS, types.Typ[k], nil, y, x)
			return i.mkVal(i.ts.Ite(i.term(c, types.Bool), i.term(y, k), i.term(x, k)), k)
		}
		if binop(i, token.LSS, types.Typ[k], nil, y, x).(bool) {
			return y
		}
		return x
	}
}

func vmax(i *interpreter) func(x, y value) value {
	return func(x, y value) value {
		switch x := x.(type) {
		case float32:
			return fmax(x, y.(float32))
		case float64:
			if yf, ok := y.(float64); ok {
				return fmax(x, yf)
			}
		}
		k := kindOfValue(x, y)
		if isSym(x) || isSym(y) {
			c := i.symBinop(token.GTR, types.Typ[k], nil, y, x)
			return i.mkVal(i.ts.Ite(i.term(c, types.Bool), i.term(y, k), i.term(x, k)), k)
		}
		if binop(i, token.GTR, types.Typ[k], nil, y, x).(bool) {
			return y
		}
		return x
	}
}

// copied from $GOROOT/src/runtime/minmax.go

type floaty interface{ ~float32 | ~float64 }

func fmin[F floaty](x, y F) F {
	if y != y || y < x {
		return y
	}
	if x != x || x < y || x != 0 {
		return x
	}
	// x and y are both ±0
	// if either is -0, return -0; else return +0
	return forbits(x, y)
}

func fmax[F floaty](x, y F) F {
	if y != y || y > x {
		return y
	}
	if x != x || x > y || x != 0 {
		return x
	}
	// x and y are both ±0
	// if both are -0, return -0; else return +0
	return fandbits(x, y)
}

func forbits[F floaty](x, y F) F {
	switch unsafe.Sizeof(x) {
	case 4:
		*(*uint32)(unsafe.Pointer(&x)) |= *(*uint32)(unsafe.Pointer(&y))
	case 8:
		*(*uint64)(unsafe.Pointer(&x)) |= *(*uint64)(unsafe.Pointer(&y))
	}
	return x
}

func fandbits[F floaty](x, y F) F {
	switch unsafe.Sizeof(x) {
	case 4:
		*(*uint32)(unsafe.Pointer(&x)) &= *(*uint32)(unsafe.Pointer(&y))
	case 8:
		*(*uint64)(unsafe.Pointer(&x)) &= *(*uint64)(unsafe.Pointer(&y))
	}
	return x
}
