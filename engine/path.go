// Path exploration: decisions, forking by re-execution, work list, per-path results.
package main

import (
	"fmt"
	"os"
	"math/rand"
	"sort"
	"strings"
	"sync"
	"time"
)

type abortKind int

const (
	abNone        abortKind = iota
	abInfeasible            // assumption cannot be satisfied: path does not exist
	abUnsupported           // engine cannot encode something: inconclusive
	abBudget                // step/decision budget exhausted: unwinding failure
	abSolver                // solver answered unknown / error: inconclusive
	abStop                  // harness asked to stop the path (after a violation)
	abDeadlock              // all threads blocked
	abPruned                // schedule redundant by sleep-set reduction
)

func (k abortKind) String() string {
	return [...]string{"none", "infeasible", "unsupported", "budget", "solver-unknown", "stop", "deadlock", "pruned"}[k]
}

// pathAbort is the Go panic payload that unwinds a whole path.
type pathAbort struct {
	kind abortKind
	msg  string
}

func isEnginePanic(r interface{}) bool {
	switch r.(type) {
	case pathAbort, threadKill:
		return true
	}
	return false
}

func (i *interpreter) abort(kind abortKind, msg string) {
	panic(pathAbort{kind, msg})
}

type decision struct {
	Kind byte   // 'b' branch, 'c' concretise, 's' schedule
	Val  uint64 // branch: 0/1; concretise: value; schedule: thread index
}

type workItem struct {
	prefix []decision
	model  Model
	excl   []uint64 // for a trailing 'c' decision: values already taken by siblings
}

// nondetRec records one nondet variable of a path (for replay).
type nondetRec struct {
	Name string `json:"name"`
	W    uint8  `json:"w"`
}

type violation struct {
	Harness   string            `json:"harness"`
	Label     string            `json:"label"`
	KnownID   string            `json:"known_id,omitempty"`
	Kind      string            `json:"kind"` // assert | panic | deadlock | race
	Msg       string            `json:"msg"`
	Vec       []uint64          `json:"vec"` // nondet values in call order
	Decisions []decision        `json:"decisions"`
	Observed  map[string]string `json:"observed,omitempty"`
}

type path struct {
	item      *workItem
	pos       int // next prefix position
	decisions []decision
	pc        []*Term
	model     Model
	vars      []*Term // nondet variables in declaration order
	nvars     int
	stepBudget int64
	decBudget  int
	// results
	obligations int
	discharged  int
	violations  []violation
	reached     map[string]bool
	inconclusive []string
	sizeSampled []string
	observes    []string
	nontrivial  bool
	asserted    bool
	opaqueN     int
	decided     map[*Term]bool
	races       map[string]bool
	envVars     map[string]bool
	sleep       map[int][]interface{}
	obsVals     [][]value
	obsTags     []string
	obsStrs     []string
	obsOK       bool
	tier        int
	params      map[string]int64
}

func (p *path) replaying() bool { return p.pos < len(p.item.prefix) }

// ---------------------------------------------------------------------------------------

type explorer struct {
	mu       sync.Mutex
	cond     *sync.Cond
	stack    []*workItem
	busy     int
	done     bool
	maxPaths int
	cfg      *harnessCfg

	// aggregated results
	paths, completed, infeasible, nontrivial, pruned int
	states, transitions                      int
	obligations, discharged                  int
	violations                               []violation
	inconclusive                             map[string]int
	sizeSampled                              map[string]int
	reached                                  map[string]int
	samples                                  []map[string]interface{}
	funcs                                    map[string]bool
	stubs                                    map[string]bool
	queries                                  int
	solverTime                               time.Duration
	engineErrors                             []string
	maxDecisions                             int
	violKeys                                 map[string]bool
	valCases                                 []valCase
	valSeen                                  int
	started                                  time.Time
	rng                                      *rand.Rand
}

// valCase is a completed path sampled for native differential validation.
type valCase struct {
	Vec      []uint64
	Sched    []int
	Outcome  string
	Observed []string
}

func newExplorer(cfg *harnessCfg) *explorer {
	e := &explorer{cfg: cfg, inconclusive: map[string]int{}, sizeSampled: map[string]int{}, reached: map[string]int{},
		funcs: map[string]bool{}, stubs: map[string]bool{}, violKeys: map[string]bool{}}
	e.cond = sync.NewCond(&e.mu)
	e.stack = []*workItem{{}}
	e.started = time.Now()
	e.rng = rand.New(rand.NewSource(cfg.seed + 1))
	return e
}

func (e *explorer) push(it *workItem) {
	e.mu.Lock()
	e.stack = append(e.stack, it)
	e.mu.Unlock()
	e.cond.Signal()
}

func (e *explorer) pop() *workItem {
	e.mu.Lock()
	defer e.mu.Unlock()
	for {
		if e.done {
			return nil
		}
		if e.cfg.TimeBudget > 0 && len(e.stack) > 0 && time.Since(e.started) > e.cfg.TimeBudget {
			e.inconclusive[fmt.Sprintf("time budget of %s reached with %d unexplored prefixes: exploration truncated", e.cfg.TimeBudget, len(e.stack))] = 1
			e.stack = nil
		}
		if e.cfg.MaxPaths > 0 && e.paths+e.busy >= e.cfg.MaxPaths && len(e.stack) > 0 {
			e.inconclusive[fmt.Sprintf("path cap of %d reached: exploration truncated", e.cfg.MaxPaths)] = len(e.stack)
			e.stack = nil
		}
		if n := len(e.stack); n > 0 {
			it := e.stack[n-1]
			e.stack = e.stack[:n-1]
			e.busy++
			return it
		}
		if e.busy == 0 {
			e.done = true
			e.cond.Broadcast()
			return nil
		}
		e.cond.Wait()
	}
}

func (e *explorer) finish() {
	e.mu.Lock()
	e.busy--
	if e.busy == 0 && len(e.stack) == 0 {
		e.done = true
	}
	e.mu.Unlock()
	e.cond.Broadcast()
}

// ---------------------------------------------------------------------------------------
// Decisions

func (i *interpreter) solver() *Solver {
	return i.w.solverFor(i.p.pc)
}

func (i *interpreter) check(extra *Term) (SatResult, Model) {
	p := i.p
	s := i.w.solverFor2(p.pc, extra)
	res, m, err := s.Check(p.pc, extra, p.vars)
	if err != nil {
		i.w.solverErrs = append(i.w.solverErrs, err.Error())
		return Unknown, nil
	}
	if res == Sat && i.w.validateModels {
		// the Go-side evaluator must agree with the solver
		i.ts.NewGen()
		for _, c := range p.pc {
			if i.ts.Eval(c, m) == 0 {
				i.w.solverErrs = append(i.w.solverErrs, "model does not satisfy path condition under the engine's evaluator: "+c.String())
				i.ts.NewGen()
				return Unknown, nil
			}
		}
		if extra != nil && i.ts.Eval(extra, m) == 0 {
			i.w.solverErrs = append(i.w.solverErrs, "model does not satisfy query under the engine's evaluator: "+extra.String())
			i.ts.NewGen()
			return Unknown, nil
		}
		i.ts.NewGen() // the cache was filled under m, not under the path's model
	}
	return res, m
}

func (p *path) record(d decision) {
	p.decisions = append(p.decisions, d)
	if len(p.decisions) > p.decBudget {
		panic(pathAbort{abBudget, fmt.Sprintf("decision budget of %d exhausted", p.decBudget)})
	}
}

// branch decides a symbolic condition, forking the path.
func (i *interpreter) branch(c *Term) bool {
	if c.IsConst() {
		return c.val != 0
	}
	if i.initMode {
		panic("symbolic branch during package initialisation")
	}
	p := i.p
	ts := i.ts
	if v, ok := p.decided[c]; ok {
		return v
	}
	p.nontrivial = true
	if p.decided == nil {
		p.decided = map[*Term]bool{}
	}
	if p.replaying() {
		d := p.item.prefix[p.pos]
		if d.Kind != 'b' {
			panic(fmt.Sprintf("replay divergence: expected decision kind %c, got branch", d.Kind))
		}
		p.pos++
		out := d.Val == 1
		if out {
			p.pc = append(p.pc, c)
		} else {
			p.pc = append(p.pc, ts.Not(c))
		}
		p.record(d)
		p.decided[c] = out
		p.decided[ts.Not(c)] = !out
		return out
	}
	cv := ts.Eval(c, p.model) != 0
	alt := c
	if cv {
		alt = ts.Not(c)
	}
	res, m := i.check(alt)
	switch res {
	case Sat:
		pre := make([]decision, len(p.decisions)+1)
		copy(pre, p.decisions)
		pre[len(p.decisions)] = decision{'b', b2u(!cv)}
		i.w.ex.push(&workItem{prefix: pre, model: m})
	case Unknown:
		p.inconclusive = append(p.inconclusive, "solver unknown on branch alternative (that side is not explored)")
	}
	p.record(decision{'b', b2u(cv)})
	if cv {
		p.pc = append(p.pc, c)
	} else {
		p.pc = append(p.pc, ts.Not(c))
	}
	p.decided[c] = cv
	p.decided[ts.Not(c)] = !cv
	return cv
}

// concretize picks a concrete value for t, forking over the other feasible values.
func (i *interpreter) concretize(t *Term, what string) uint64 {
	if t.IsConst() {
		return t.val
	}
	p := i.p
	ts := i.ts
	p.nontrivial = true
	var v uint64
	var excl []uint64
	if p.replaying() {
		d := p.item.prefix[p.pos]
		if d.Kind != 'c' {
			panic(fmt.Sprintf("replay divergence: expected decision kind %c, got concretise", d.Kind))
		}
		p.pos++
		v = d.Val
		if p.pos == len(p.item.prefix) && p.item.excl != nil {
			excl = p.item.excl
		}
	} else {
		v = ts.Eval(t, p.model)
		excl = []uint64{v}
	}
	if excl != nil {
		if len(excl) >= i.w.ex.cfg.concLimit {
			p.sizeSampled = append(p.sizeSampled, fmt.Sprintf("%s: more than %d feasible values", what, i.w.ex.cfg.concLimit))
		} else {
			cond := ts.True
			for _, e := range excl {
				cond = ts.And(cond, ts.Not(ts.Eq(t, ts.Const(t.w, e))))
			}
			res, m := i.check(cond)
			switch res {
			case Sat:
				ts.NewGen()
				nv := ts.Eval(t, m)
				ts.NewGen()
				pre := make([]decision, len(p.decisions)+1)
				copy(pre, p.decisions)
				pre[len(p.decisions)] = decision{'c', nv}
				ne := append(append([]uint64(nil), excl...), nv)
				i.w.ex.push(&workItem{prefix: pre, model: m, excl: ne})
			case Unknown:
				p.inconclusive = append(p.inconclusive, "solver unknown while enumerating values of "+what)
			}
		}
	}
	p.record(decision{'c', v})
	p.pc = append(p.pc, ts.Eq(t, ts.Const(t.w, v)))
	return v
}

// assume adds c to the path condition; the path ends if it cannot hold.
func (i *interpreter) assume(c *Term) {
	if c.IsConst() {
		if c.val == 0 {
			i.abort(abInfeasible, "assumption false")
		}
		return
	}
	p := i.p
	if p.replaying() {
		p.pc = append(p.pc, c)
		return
	}
	if i.ts.Eval(c, p.model) != 0 {
		p.pc = append(p.pc, c)
		return
	}
	res, m := i.check(c)
	switch res {
	case Sat:
		p.pc = append(p.pc, c)
		p.model = m
		i.ts.NewGen()
	case Unsat:
		i.abort(abInfeasible, "assumption infeasible")
	default:
		i.abort(abSolver, "solver unknown on assumption")
	}
}

// assert checks the obligation pc => c.
func (i *interpreter) assert(c *Term, label, knownID string) {
	p := i.p
	if p.replaying() {
		// already checked by the path this one forked from, under the same path condition
		if !c.IsConst() {
			p.pc = append(p.pc, c)
		} else if c.val == 0 {
			i.abort(abStop, "violated assertion in replayed prefix")
		}
		return
	}
	p.obligations++
	p.asserted = true
	if c.IsConst() {
		if c.val != 0 {
			p.discharged++
			return
		}
		i.reportViolation("assert", label, knownID, "assertion is false on this path", p.model)
		i.abort(abStop, "assertion violated")
	}
	res, m := i.check(i.ts.Not(c))
	switch res {
	case Unsat:
		p.discharged++
		p.pc = append(p.pc, c)
	case Sat:
		i.reportViolation("assert", label, knownID, "assertion can be false", m)
		// continue with the assertion assumed, if possible
		if i.ts.Eval(c, p.model) == 0 {
			r2, m2 := i.check(c)
			if r2 != Sat {
				i.abort(abStop, "assertion violated on every input of this path")
			}
			p.model = m2
			i.ts.NewGen()
		}
		p.pc = append(p.pc, c)
	default:
		p.inconclusive = append(p.inconclusive, "solver unknown on assertion "+label)
		p.pc = append(p.pc, c)
		if i.ts.Eval(c, p.model) == 0 {
			i.abort(abStop, "cannot continue after inconclusive assertion")
		}
	}
}

func (i *interpreter) reportViolation(kind, label, knownID, msg string, m Model) {
	p := i.p
	vec := p.replayVec(m)
	v := violation{Harness: i.w.ex.cfg.Func, Label: label, KnownID: knownID, Kind: kind, Msg: msg, Vec: vec,
		Decisions: append([]decision(nil), p.decisions...)}
	p.violations = append(p.violations, v)
}

// ---------------------------------------------------------------------------------------

func (e *explorer) merge(p *path, w *worker, outcome string, steps int64) {
	e.mu.Lock()
	defer e.mu.Unlock()
	e.paths++
	if progress && e.paths%500 == 0 {
		fmt.Fprintf(os.Stderr, "[progress] paths=%d stack=%d obligations=%d violations=%d inconclusive=%d\n", e.paths, len(e.stack), e.obligations, len(e.violations), len(e.inconclusive))
	}
	e.states += len(p.decisions) - len(p.item.prefix) + 1
	e.transitions += len(p.decisions) - len(p.item.prefix) + 1
	if len(p.decisions) > e.maxDecisions {
		e.maxDecisions = len(p.decisions)
	}
	switch outcome {
	case "ok", "violated":
		e.completed++
		if p.nontrivial && p.asserted {
			e.nontrivial++
		}
	case "infeasible":
		e.infeasible++
	case "pruned":
		e.pruned++
	}
	e.obligations += p.obligations
	e.discharged += p.discharged
	for _, v := range p.violations {
		key := v.Label + "|" + v.Kind + "|" + v.KnownID
		if e.violKeys[key] && len(e.violations) > 200 {
			continue
		}
		e.violKeys[key] = true
		e.violations = append(e.violations, v)
	}
	for _, s := range p.inconclusive {
		e.inconclusive[s]++
	}
	for _, s := range p.sizeSampled {
		e.sizeSampled[s]++
	}
	for l := range p.reached {
		e.reached[l]++
	}
	if (outcome == "ok") && p.obsOK && len(p.violations) == 0 && len(p.inconclusive) == 0 {
		vec := p.replayVec(p.model)
		vc := valCase{Vec: vec, Sched: schedOf(p.decisions), Outcome: "ok", Observed: p.obsStrs}
		e.valSeen++
		limit := e.cfg.valLimit()
		if len(e.valCases) < limit {
			e.valCases = append(e.valCases, vc)
		} else if j := e.rng.Intn(e.valSeen); j < limit {
			e.valCases[j] = vc
		}
	}
	if len(e.samples) < 6 && (outcome == "ok" || outcome == "violated") && p.nontrivial {
		vec := make([]string, 0, len(p.vars))
		for _, v := range p.vars {
			vec = append(vec, fmt.Sprintf("%s=%#x", v.name, p.model[v.name]&maskB(v.w)))
		}
		if len(vec) > 48 {
			vec = append(vec[:48], "...")
		}
		ds := make([]string, 0, len(p.decisions))
		for _, d := range p.decisions {
			ds = append(ds, fmt.Sprintf("%c%d", d.Kind, d.Val))
		}
		if len(ds) > 64 {
			ds = append(ds[:64], "...")
		}
		obs := p.observes
		if len(obs) > 12 {
			obs = obs[:12]
		}
		e.samples = append(e.samples, map[string]interface{}{
			"outcome": outcome, "decisions": strings.Join(ds, " "), "path_condition_conjuncts": len(p.pc),
			"a_model": strings.Join(vec, " "), "assertions_checked": p.obligations, "steps": steps, "observed": obs,
		})
	}
}

func sortedKeys(m map[string]int) []string {
	ks := make([]string, 0, len(m))
	for k := range m {
		ks = append(ks, k)
	}
	sort.Strings(ks)
	return ks
}

var progress = os.Getenv("GOSYMEX_PROGRESS") != ""

// replayVec is the nondet vector of the harness's own v* calls under model m (values drawn
// by environment stubs are left out).
func (p *path) replayVec(m Model) []uint64 {
	vec := make([]uint64, 0, len(p.vars))
	for _, v := range p.vars {
		if p.envVars[v.name] {
			continue
		}
		vec = append(vec, m[v.name]&maskB(v.w))
	}
	return vec
}
