// Which harnesses decide which property, with their stated bounds.
package main

type harnessSpec struct {
	Pkg          string // package directory relative to the repo
	Func         string
	FP           bool
	Race         bool // replay natively with -race
	ThoroughOnly bool
	Steps        int64
	Conc         int
	Labels       []string // vReach labels that must be reached (vacuity witnesses)
	Bound        string   // the bound in words (quick)
	BoundT       string   // the bound in words (thorough), if different
}

type propSpec struct {
	ID          string
	Harnesses   []harnessSpec
	Rule        string
	Assumptions []string
}

var registry = map[string]*propSpec{}

func reg(p *propSpec) { registry[p.ID] = p }

var commonAssumptions = []string{
	"go/packages + go/ssa (x/tools v0.29.0) produce the SSA that is executed; the compiled binary is not examined (sampled paths and every counterexample are replayed natively)",
	"engine instruction semantics (gosymex, derived from x/tools go/ssa/interp), z3 4.8.12 / cvc5 1.0 answers",
	"fmt.Sprintf/Errorf results are opaque strings unless all arguments are concrete basic values; errors.callers returns an empty stack",
	"dependency-package globals are initialised once per worker and assumed not to be mutated by the code under test",
}

func init() {
	reg(&propSpec{
		ID: "C11",
		Rule: "Harnesses in harness/aac/c11.go; inputs are symbolic bytes/fields, lengths fork.",
		Assumptions: commonAssumptions,
		Harnesses: []harnessSpec{
			{Pkg: "aac", Func: "HarnessC11_ASC", Labels: []string{"asc-accepted", "asc-rejected"},
				Bound: "all 65536 two-byte AudioSpecificConfigs (2 symbolic bytes)"},
			{Pkg: "aac", Func: "HarnessC11_ToHz", Labels: []string{"tohz", "tohz-defined"},
				Bound: "receiver symbolic over all 256 uint8 values"},
			{Pkg: "aac", Func: "HarnessC11_EncDec", Labels: []string{"encdec"},
				Bound:  "config symbolic over all valid (object,index,channels); raw length in {1,2,3,24,25,248,249,2040,2041,8183,8184}; raw bytes all symbolic up to 16 bytes, beyond that 5 symbolic positions (first two, middle, last two)",
				BoundT: "as quick, raw length over 49 values around every power of two of the 13-bit frame length (1..8184)"},
			{Pkg: "aac", Func: "HarnessC11_Concat", Labels: []string{"concat"},
				Bound: "2 frames (thorough: 2-3), each with symbolic valid config and 1-3 symbolic raw bytes"},
			{Pkg: "aac", Func: "HarnessC11_RefDecode", Labels: []string{"refdecode-crc", "refdecode-nocrc"},
				Bound: "independent ISO 13818-7 writer: id, protection_absent, private/original/home/copyright bits, 11-bit fullness, 2 CRC bytes symbolic; profile Main/LC/SSR x index 1..12 x channels 1..7 symbolic; raw 1-4 symbolic bytes; 0-2 trailing symbolic bytes"},
		},
	})
}
