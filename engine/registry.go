// Which harnesses decide which property, with their stated bounds.
package main

type harnessSpec struct {
	Pkg          string // package directory relative to the repo
	Func         string
	FP           bool
	Race         bool // replay natively with -race
	ThoroughOnly bool
	Steps        int64
	Conc         int
	Labels       []string // vReach labels that must be reached (vacuity witnesses)
	Bound        string   // the bound in words (quick)
	BoundT       string   // the bound in words (thorough), if different
}

type propSpec struct {
	ID          string
	Harnesses   []harnessSpec
	Rule        string
	Assumptions []string
}

var registry = map[string]*propSpec{}

func reg(p *propSpec) { registry[p.ID] = p }

var commonAssumptions = []string{
	"go/packages + go/ssa (x/tools v0.29.0) produce the SSA that is executed; the compiled binary is not examined (sampled paths and every counterexample are replayed natively)",
	"engine instruction semantics (gosymex, derived from x/tools go/ssa/interp), z3 4.8.12 / cvc5 1.0 answers",
	"fmt.Sprintf/Errorf results are opaque strings unless all arguments are concrete basic values; errors.callers returns an empty stack",
	"dependency-package globals are initialised once per worker and assumed not to be mutated by the code under test",
}

func init() {
	reg(&propSpec{
		ID: "C11",
		Rule: "Harnesses in harness/aac/c11.go; inputs are symbolic bytes/fields, lengths fork.",
		Assumptions: commonAssumptions,
		Harnesses: []harnessSpec{
			{Pkg: "aac", Func: "HarnessC11_ASC", Labels: []string{"asc-accepted", "asc-rejected"},
				Bound: "all 65536 two-byte AudioSpecificConfigs (2 symbolic bytes)"},
		},
	})
}
