// Which harnesses decide which property, with their stated bounds.
package main

type harnessSpec struct {
	Pkg          string // package directory relative to the repo
	Func         string
	FP           bool
	Race         bool // replay natively with -race
	ThoroughOnly bool
	Steps        int64
	Conc         int
	TimeFixed    bool     // time.Now returns a fixed instant
	SymAddr      bool     // object addresses are symbolic (every alignment is explored)
	TimersMayFire bool
	NoValidate    bool // the harness measures cost: its native outcome depends on wall time, so passing paths are not compared with the native run    // timers with a finite duration may fire (forked at the select that waits on them)
	Stall        bool     // a path that exhausts its step budget is a candidate stall, replayed natively under a watchdog
	Labels       []string // vReach labels that must be reached (vacuity witnesses)
	Bound        string   // the bound in words (quick)
	BoundT       string   // the bound in words (thorough), if different
}

type propSpec struct {
	ID          string
	Harnesses   []harnessSpec
	Rule        string
	Assumptions []string
}

var registry = map[string]*propSpec{}

func reg(p *propSpec) { registry[p.ID] = p }

var commonAssumptions = []string{
	"go/packages + go/ssa (x/tools v0.29.0) produce the SSA that is executed; the compiled binary is not examined (sampled paths and every counterexample are replayed natively)",
	"engine instruction semantics (gosymex, derived from x/tools go/ssa/interp), z3 4.8.12 / cvc5 1.0 answers",
	"fmt.Sprintf/Errorf results are opaque strings unless all arguments are concrete basic values; errors.callers returns an empty stack",
	"dependency-package globals are initialised once per worker and assumed not to be mutated by the code under test",
}

func init() {
	reg(&propSpec{
		ID: "C11",
		Rule: "Harnesses in harness/aac/c11.go; inputs are symbolic bytes/fields, lengths fork.",
		Assumptions: commonAssumptions,
		Harnesses: []harnessSpec{
			{Pkg: "aac", Func: "HarnessC11_ASC", Labels: []string{"asc-accepted", "asc-rejected"},
				Bound: "all 65536 two-byte AudioSpecificConfigs (2 symbolic bytes)"},
			{Pkg: "aac", Func: "HarnessC11_ToHz", Labels: []string{"tohz", "tohz-defined"},
				Bound: "receiver symbolic over all 256 uint8 values"},
			{Pkg: "aac", Func: "HarnessC11_EncDec", Labels: []string{"encdec"},
				Bound:  "config symbolic over all valid (object,index,channels); raw length in {1,2,3,24,25,248,249,2040,2041,8183,8184}; raw bytes all symbolic up to 16 bytes, beyond that 5 symbolic positions (first two, middle, last two)",
				BoundT: "as quick, with every raw length 1..512 and every multiple of 64 (and its neighbours) up to 8184"},
			{Pkg: "aac", Func: "HarnessC11_Concat", Labels: []string{"concat"},
				Bound: "2 frames (thorough: 2-3), each with symbolic valid config and 1-3 symbolic raw bytes"},
			{Pkg: "aac", Func: "HarnessC11_RefDecode", Labels: []string{"refdecode-crc", "refdecode-nocrc"},
				Bound: "independent ISO 13818-7 writer: id, protection_absent, private/original/home/copyright bits, 11-bit fullness, 2 CRC bytes symbolic; profile Main/LC/SSR x index 1..12 x channels 1..7 symbolic; raw 1-4 symbolic bytes; 0-2 trailing symbolic bytes"},
		},
	})
	reg(&propSpec{
		ID:          "C09",
		Rule:        "Harnesses in harness/flv/c09.go: muxer vs independent FLV v1 writer, muxer->demuxer and reference->demuxer under forked read segmentations.",
		Assumptions: commonAssumptions,
		Harnesses: []harnessSpec{
			{Pkg: "flv", Func: "HarnessC09_Mux", Labels: []string{"mux"},
				Bound:  "flags 2 symbolic bools; 1-2 tags; type 8 symbolic bits, timestamp 32 symbolic bits; first body 0-3 symbolic bytes or 255/256/65535/65536/2^24-1 bytes (3 symbolic positions, patterned filler), second body 0-3 symbolic bytes",
				BoundT: "as quick with small bodies 0-8 and boundary sizes 255,256,65524,65525,65535,65536,65537,131071,2^20 and (muxer layout only) 2^24-12, 2^24-11, 2^24-1"},
			{Pkg: "flv", Func: "HarnessC09_RoundTrip", Labels: []string{"roundtrip"},
				Bound: "as Mux; reader segmentation: whole / fixed chunks (1 byte for files <= 64 bytes, else 4093) / one split point at every offset (files <= 40 bytes) or within +-2 of every structural boundary"},
			{Pkg: "flv", Func: "HarnessC09_RefDemux", Labels: []string{"refdemux"},
				Bound: "as RoundTrip, file produced by the independent FLV v1 writer"},
		},
	})
	reg(&propSpec{
		ID:          "C10",
		Rule:        "Harnesses in harness/flv/c10.go: frame fields symbolic over their full Go types under the frame validity predicate; canonical bodies as arbitrary byte strings.",
		Assumptions: append([]string{"validity predicate of frames: SoundFormat<16, SoundSize<2, SoundType<2; SoundRate<4 (non-Opus) or a defined Opus rate iff the sampling-rate trait flag is set (else 0); AudioLevel 0 without the level flag; Trait only for AAC/Opus/AVC/HEVC; FrameType,CodecID<16; CTS in [0,2^24) for AVC/HEVC else 0", "canonical Opus body: the two sound-rate bits of the first byte are zero"}, commonAssumptions...),
		Harnesses: []harnessSpec{
			{Pkg: "flv", Func: "HarnessC10_AudioRT", Labels: []string{"audio-rt"}, Bound: "all valid audio frames (fields symbolic), raw 0-3 symbolic bytes"},
			{Pkg: "flv", Func: "HarnessC10_VideoRT", Labels: []string{"video-rt"}, Bound: "all valid video frames (fields symbolic, CTS 24 bits), raw 0-4 symbolic bytes"},
			{Pkg: "flv", Func: "HarnessC10_AudioCanon", Labels: []string{"audio-canon", "audio-canon-rejected"}, Bound: "every byte string of 1-7 bytes as audio tag body"},
			{Pkg: "flv", Func: "HarnessC10_VideoCanon", Labels: []string{"video-canon", "video-canon-rejected"}, Bound: "every byte string of 1-7 bytes as video tag body"},
			{Pkg: "flv", Func: "HarnessC10_Stateless", Labels: []string{"stateless"}, Bound: "two arbitrary bodies of 2-4 bytes decoded in sequence by one audio / video packager vs fresh packagers"},
			{Pkg: "flv", Func: "HarnessC10_Rates", Labels: []string{"rates-flv", "rates-opus"}, Bound: "all defined FLV (0-3) and Opus (8,12,16,24,48) rate codes, receiver symbolic"},
		},
	})
	reg(&propSpec{
		ID:          "C12",
		Rule:        "Harnesses in harness/avc/c12.go: NAL units, configuration records and samples against an ISO/IEC 14496-15 reference writer.",
		Assumptions: append([]string{"values are unmarshalled into fresh objects (UnmarshalBinary appends to existing SPS/PPS/NALU lists)", "nal_ref_idc < 4, nal_unit_type < 32 (the fields' widths)"}, commonAssumptions...),
		Harnesses: []harnessSpec{
			{Pkg: "avc", Func: "HarnessC12_NALU", Labels: []string{"nalu"}, Bound: "all 256 header bytes (symbolic), payload 0-3 symbolic bytes", BoundT: "payload also 254/255/256/65534 bytes (2 symbolic positions)"},
			{Pkg: "avc", Func: "HarnessC12_Record", Labels: []string{"record"}, Bound: "profile/compat/level 8 symbolic bits each, lengthSizeMinusOne 0..3 symbolic, 0-2 SPS and 0-2 PPS with symbolic headers and 0-2 symbolic payload bytes, plus 17 SPS + 3 PPS of one symbolic byte each", BoundT: "counts case: every SPS count 0..31 x PPS count in {0,1,2,15,16,127,128,254,255}"},
			{Pkg: "avc", Func: "HarnessC12_Sample", Labels: []string{"sample"}, Bound: "NAL length size 1..4, 0-3 NAL units with symbolic headers and 0-2 payload bytes", BoundT: "first NAL unit also at sizes 253-256, 65533-65536 where the length size allows"},
		},
	})
	amfAssume := append([]string{"keys of one generated container are pairwise distinct (Set replaces an existing key); repeated keys are covered by the byte-level harnesses", "trees are built through the public constructors and Set()"}, commonAssumptions...)
	reg(&propSpec{
		ID:          "C05",
		Rule:        "Harnesses in harness/amf0/c05.go: tree shapes fork (vChoice over node kinds), scalar contents (number bits, booleans, string and key bytes) are symbolic; byte-level harnesses take arbitrary byte strings.",
		Assumptions: amfAssume,
		Harnesses: []harnessSpec{
			{Pkg: "amf0", Func: "HarnessC05_Tree", Labels: []string{"tree"},
				Bound:  "trees of <=3 nodes, depth <=2, <=2 properties per container, strings/keys 0-1 symbolic bytes, numbers 64 symbolic bits",
				BoundT: "trees of <=4 nodes, depth <=3, <=3 properties, strings/keys 0-2 symbolic bytes plus strings of 255/256/65535 bytes"},
			{Pkg: "amf0", Func: "HarnessC05_Bytes", Labels: []string{"bytes-accepted", "bytes-rejected"},
				Bound: "every byte string of 1..10 bytes (thorough: 1..13)"},
			{Pkg: "amf0", Func: "HarnessC05_DupKeys", Labels: []string{"dupkeys"},
				Bound: "object / ECMA array / strict array (library layout) with 2-3 properties, keys 0-1 symbolic bytes (so repeated and empty keys are solver choices), values null/boolean/short string, 0-2 trailing bytes"},
			{Pkg: "amf0", Func: "HarnessC05_History", Labels: []string{"history"},
				Bound: "object / ECMA array / strict array with 0-2 scalar properties: marshal, marshal a second value, decode the bytes obtained first, extend the decoded value by 1-2 properties through Set, marshal and decode again (sync.Pool modelled as returning the value put last)"},
		},
	})
	reg(&propSpec{
		ID:          "C06",
		Rule:        "Harnesses in harness/amf0/c06.go against the reference codec in harness/amf0/ref.go (written from amf0_spec_121207 2.2-2.12).",
		Assumptions: amfAssume,
		Harnesses: []harnessSpec{
			{Pkg: "amf0", Func: "HarnessC06_LibToRef", Labels: []string{"lib-to-ref"}, Bound: "trees as C05_Tree; library bytes decoded by the reference decoder"},
			{Pkg: "amf0", Func: "HarnessC06_RefToLib", Labels: []string{"ref-to-lib"}, Bound: "trees as C05_Tree (contents below a strict array concrete); reference bytes (true encoded as any non-zero symbolic byte) decoded by the library"},
			{Pkg: "amf0", Func: "HarnessC06_LongStrings", Labels: []string{"longstrings"}, Bound: "strings and property names of 255/256/257/65535 bytes (3 symbolic positions), both directions"},
			{Pkg: "amf0", Func: "HarnessC06_RefDupKeys", Labels: []string{"ref-dupkeys"}, Bound: "reference-encoded object/ECMA array with 2-3 properties whose keys are 0-1 symbolic bytes (repeats are solver choices), nested in an object followed by another property"},
			{Pkg: "amf0", Func: "HarnessC06_Markers", Labels: []string{"marker-eof", "marker-supported", "marker-unsupported"}, Bound: "all 256 marker bytes (symbolic) followed by 0-2 symbolic bytes"},
		},
	})
	reg(&propSpec{
		ID:   "C20",
		Rule: "Harnesses in harness/kxps/c20.go: one sampling step from an arbitrary state, the three-window cascade from an arbitrary valid meter state, short histories from a fresh meter, the average, the kbit/s scaling and the refusal before Start.",
		Assumptions: append([]string{
			"instants lie in [0, 2^33) s after the Unix epoch and carry no monotonic clock reading",
			"time.Time.Sub on symbolic instants is summarised as dsec*1e9 + dnsec (its overflow re-check, which divides a symbolic value by 1e9, is skipped); time.Time.Add/After/Equal and time.Unix are interpreted from source",
			"float results are compared bit-exactly with the IEEE-754 evaluation of the defining formula float64(d)*1000/float64(window_ms) (no independent real-number oracle: measured out of reach), and proved finite and non-negative in the FP theory",
			"the sampling goroutine of Start() (wall-clock timer) is not executed; doSample/sampleAverage are driven directly with symbolic instants",
		}, commonAssumptions...),
		Harnesses: []harnessSpec{
			{Pkg: "kxps", Func: "HarnessC20_Step", FP: true, Labels: []string{"step-grow", "step-stall", "step-wait"}, Bound: "window in {10,30,300} s; previous sample time, now (sec < 2^33, nsec < 1e9), previous count, new count (64 bits: stall, backwards, wrap are values), previous rate (64 bits) all symbolic"},
			{Pkg: "kxps", Func: "HarnessC20_Cascade", FP: true, Labels: []string{"cascade"}, Bound: "one doSample from an arbitrary meter state: three previous sample times, counts and rates, now and counter symbolic"},
			{Pkg: "kxps", Func: "HarnessC20_History", FP: true, Labels: []string{"history"}, Bound: "3 observations (thorough 4) from a fresh meter at symbolic non-decreasing instants with symbolic non-decreasing counter"},
			{Pkg: "kxps", Func: "HarnessC20_Average", FP: true, Labels: []string{"avg", "avg-uninit", "avg-zero"}, Bound: "two observations with symbolic instants and counters"},
			{Pkg: "kxps", Func: "HarnessC20_Kbps", FP: true, Labels: []string{"kbps"}, Bound: "rate = float64(d)*1000/window_ms for symbolic d > 0; accessors before Start and after Close"},
		},
	})
	rtmpAssume := append([]string{
		"transport = in-harness byte pipe; read segmentation forks over: whole, 1 byte per read (61 for long streams), one split point next to every message/chunk boundary (thorough: every offset of short streams)",
		"raw data messages use types other than 1 (Set Chunk Size, sent through WritePacket), 2 (Abort, excluded by the property), 4 and 5 (interpreted by the reader, covered with well-formed bodies in C03)",
		"timestamps below 2^31 (the property's validity predicate)",
	}, commonAssumptions...)
	reg(&propSpec{
		ID:          "C01",
		Rule:        "Harnesses in harness/rtmp/c01.go: header generators vs header parsers with all fields symbolic; sessions of messages with symbolic fields/payload bytes and a symbolic announced chunk size; simple handshake.",
		Assumptions: rtmpAssume,
		Harnesses: []harnessSpec{
			{Pkg: "rtmp", Func: "HarnessC01_Header", Labels: []string{"hdr-ext", "hdr-plain"},
				Bound: "timestamp 31 symbolic bits (so 0xFFFFFE/0xFFFFFF/0x1000000/2^31-1 are decided by the solver), payload length 24 symbolic bits (65535/65536/2^24-1 included), type 8 bits, stream id 32 bits, chunk stream 2..8"},
			{Pkg: "rtmp", Func: "HarnessC01_Session", Labels: []string{"session"},
				Bound:  "1-2 messages (first payload 1-5 symbolic bytes, second 1 or 3), each optionally preceded by WritePacket(SetChunkSize) with the size symbolic in [1, 2^31-1]; messages built by NewStreamMessage or NewMessage; type/stream id/timestamp symbolic",
				BoundT: "1 message of 1-10, 2 messages of 1-4 or 3 messages of 1 symbolic payload byte; every split offset of short streams"},
			{Pkg: "rtmp", Func: "HarnessC01_Duplex", Labels: []string{"duplex"}, Bound: "two endpoints that both read and write: each optionally announces a chunk size (any value in [1, 2^31-1]) and writes a 3-byte message, reads the other's, writes a 2-byte message, reads the other's"},
			{Pkg: "rtmp", Func: "HarnessC01_Chunked", Labels: []string{"chunked"},
				Bound:  "one message of 127/128/129/257 bytes (3 symbolic positions, symbolic type/stream id/timestamp) with the default chunk size or an announced one in {1,127,128,129,4096}, followed by a 2-byte message",
				BoundT: "sizes 127,128,129,255,256,257,4095,4096,4097,65535,65536"},
			{Pkg: "rtmp", Func: "HarnessC01_Handshake", Labels: []string{"handshake"},
				Bound: "C0C1/S0S1S2/C2 exchange with fixed pseudo-random bytes, transport chunk in {whole,1,7,1535,1536,1537}, then one message with symbolic fields"},
		},
	})
	reg(&propSpec{
		ID:          "C02",
		Rule:        "Harnesses in harness/rtmp/c02.go: an independent chunker written from RTMP 1.0 5.3.1 produces the byte stream; header types, basic-header forms, interleaving order fork; ids, timestamps/deltas, types, stream ids, payload bytes and the chunk size are symbolic.",
		Assumptions: append([]string{"a fmt-3 chunk that starts a NEW message right after an extended-timestamp header is ambiguous in the specification and not generated", "no Abort messages"}, rtmpAssume...),
		Harnesses: []harnessSpec{
			{Pkg: "rtmp", Func: "HarnessC02_Headers", Labels: []string{"headers", "extdelta"},
				Bound: "one chunk stream (form 1/2/3 forked, id symbolic in 3..63 / 64..319 / 64..65599), 2 messages (thorough 2-3; 3-message sequences are read whole), later ones with header type 0/1/2/3 forked; timestamps and deltas 32 symbolic bits (extended timestamps are solver choices); payload 1-4 symbolic bytes"},
			{Pkg: "rtmp", Func: "HarnessC02_Interleave", Labels: []string{"interleave"},
				Bound: "Set Chunk Size with symbolic size in [1,2^31-1], two chunk streams (forms forked, ids symbolic and distinct), one message of 1-4 bytes each, all interleavings of their chunks"},
			{Pkg: "rtmp", Func: "HarnessC02_Follow", Labels: []string{"follow"}, Bound: "one chunk stream, chunk size 1..3: a fmt-0 message of 1-3 bytes (1-3 chunks) followed by 1-2 messages starting with fmt 1/2/3 (fmt 3: delta inherited, after fmt 0 the timestamp), each again chunked; 16-bit timestamps and deltas"},
			{Pkg: "rtmp", Func: "HarnessC02_Rescale", Labels: []string{"rescale"}, Bound: "chunk size symbolic 1..3, one message of 3-5 bytes on a chunk stream with symbolic id; after 0-2 of its chunks a second Set Chunk Size with symbolic size (itself chunked with the old size), then the rest of the message"},
			{Pkg: "rtmp", Func: "HarnessC02_Reject", Labels: []string{"reject", "reject-librtmp-ok"},
				Bound: "one rule violation per stream: fresh chunk stream starting with fmt 1/2/3; fmt 0 inside an unfinished message; length changed mid-message (other length 24 symbolic bits); plus the documented librtmp ping which must be accepted"},
		},
	})
	reg(&propSpec{
		ID:   "C03",
		Rule: "Harnesses in harness/rtmp/c03.go: packet kinds fork (12 kinds), field values symbolic (numbers 64 bits, strings 0-2 symbolic bytes, AMF0 objects with 0-1 symbolic property, all 65536 user-control event types, all uint32 control values).",
		Assumptions: append([]string{
			"UserControl canonical field values: event data 0..255 for the 1-byte FMS event, extra data only for SetBufferLength",
			"transaction ids of requests that expect a response are > 0 (the library registers only those)",
			"reflect calls of ExpectPacket (TypeOf/Elem/Implements/AssignableTo/ValueOf/Value.Elem/Set) are answered by the engine from go/types",
		}, rtmpAssume...),
		Harnesses: []harnessSpec{
			{Pkg: "rtmp", Func: "HarnessC03_Codec", Labels: []string{"codec"}, Bound: "every packet kind; Size/marshal/unmarshal/re-marshal with symbolic fields", BoundT: "strings also 255/256/65535 bytes"},
			{Pkg: "rtmp", Func: "HarnessC03_Wire", Labels: []string{"wire"}, Bound: "requests and control packets: WritePacket on one endpoint, ReadMessage+DecodeMessage on the peer, stream id in {0,1,2}; delivered whole, one byte per read, or with the first read ending inside the message"},
			{Pkg: "rtmp", Func: "HarnessC03_Transactions", Labels: []string{"tx", "tx-matched", "tx-unmatched"}, Bound: "histories of 3 (thorough 5) operations over {send connect, send createStream(tid symbolic > 0), receive _result(tid symbolic, body of either response type)}; ids are symbolic float64 bit patterns compared with IEEE equality"},
			{Pkg: "rtmp", Func: "HarnessC03_Expect", Labels: []string{"expect", "expect-message", "expect-packet", "expect-response"}, Bound: "2-3 messages of forked kinds {window ack, ping, closeStream, connect, one connect response to the reader's own request}; ExpectMessage(type) for 3 types; ExpectPacket(&*ConnectAppPacket) and ExpectPacket(&*ConnectAppResPacket)"},
		},
	})
	reg(&propSpec{
		ID:   "C04",
		Rule: "Harness in harness/rtmp/c04.go: two engine threads (writer, reader) on one Protocol over a transport that makes the peer's response readable as soon as the request's last byte was handed to Write; every order of their visible operations (channel operations of the transport, ltransactions Lock/Unlock, thread start/exit) is a forked schedule decision; vector-clock happens-before race detection on every memory slot.",
		Assumptions: append([]string{
			"context switches only at visible operations (mutex, channel, go, thread exit); finer interleavings are covered by reporting data races (DRF argument); sequentially consistent memory",
			"channel operations are treated as acquire+release on the channel (over-approximates happens-before: can hide a race, never invent one)",
			"native replay pins the adversarial order with the 'slow write' transport mode (Write does not return before the reader handled the response) and runs under -race",
		}, rtmpAssume...),
		Harnesses: []harnessSpec{
			{Pkg: "rtmp", Func: "HarnessC04_Concurrent", Race: true, Labels: []string{"concurrent"},
				Bound: "1-2 (thorough 1-3) requests (connect and/or createStream with symbolic distinct ids), optionally pipelined with the answers in reverse order, optionally preceded by a stray response; each answer sent as an AMF0 (type 20) or AMF3 (type 17) command message; optionally the transport breaks after the first of two requests (the second write fails, the first answer still arrives); 2 threads, all schedules; free and slow-write transport"},
		},
	})
	reg(&propSpec{
		ID:   "C08",
		Rule: "Harnesses in harness/rtmp/c08.go, harness/flv/c08.go, harness/errors/c08.go: the fault position (cut offset of the byte stream, index of the failing write call, bytes accepted by it) is a forked variable over its whole range; message/tag contents are symbolic.",
		Assumptions: append([]string{"transport errors: io.EOF for a cut stream, or a private sentinel error value (must come back identical)"}, rtmpAssume...),
		Harnesses: []harnessSpec{
			{Pkg: "rtmp", Func: "HarnessC08_ReadCut", Conc: 256, Labels: []string{"read-cut"}, Bound: "sessions of 1-2 messages (payload 1-3 symbolic bytes, optionally a Set Chunk Size 2 so that a message spans chunks) written by the library; every cut offset 0..len; EOF or sentinel error; whole or 1-byte reads"},
			{Pkg: "rtmp", Func: "HarnessC08_WriteFail", Labels: []string{"write-fail", "write-ok"}, Bound: "message of 1-5 symbolic bytes or 9000 bytes (several transport writes); failing write call index 0-1 accepting 0-2 bytes"},
			{Pkg: "rtmp", Func: "HarnessC08_WritePacketFail", Labels: []string{"writepacket-fail"}, Bound: "connect, createStream, publish, SetChunkSize, UserControl packets (symbolic fields) on a transport whose first write fails after 0-2 bytes"},
			{Pkg: "rtmp", Func: "HarnessC08_Handshake", Labels: []string{"handshake-io"}, Bound: "C0C1 stream cut at {0,1,2,700,1536,1537}; each handshake write on a failing writer"},
			{Pkg: "flv", Func: "HarnessC08_FlvReadCut", Conc: 256, Labels: []string{"flv-cut-body", "flv-cut-header", "flv-cut-none", "flv-cut-taghdr"}, Bound: "reference-written file of 1-2 tags with 0-2 symbolic body bytes; every cut offset; EOF or sentinel; whole or 1-byte reads"},
			{Pkg: "flv", Func: "HarnessC08_FlvWriteFail", Labels: []string{"flv-write-fail"}, Bound: "header + one tag; failing write call index 0-3 accepting 0-2 bytes"},
			{Pkg: "errors", Func: "HarnessC08_Errors", Labels: []string{"errors"}, Bound: "nesting depth 1-3 (thorough 1-4) over {WithStack, Wrap, Wrapf, WithMessage} on 4 kinds of root error (io.EOF, foreign error, New, Errorf); messages from a fixed set including %, format verbs, \": \" and the empty string"},
		},
	})
	reg(&propSpec{
		ID:   "C07",
		Rule: "Harnesses c07.go in harness/{amf0,rtmp,flv,aac,avc}: the input is an arbitrary byte string (all bytes symbolic, length forked 0..N); the only obligation is that the call returns: every panic site's feasibility is a solver query (bounds checks, nil checks, make sizes, divisions fork on their failure condition), and a path that exhausts its step budget is replayed natively under a 10 s watchdog (a native hang is a stall violation).",
		Assumptions: append([]string{
			"claimed subset: RTMP chunk reader and message/packet decoders, AMF0, FLV demuxer and tag decoders, ADTS/AudioSpecificConfig, AVC NAL/record/sample, WebSocket frame reader, JSON+ reader (arbitrary bytes in HarnessC07_Json, structured documents in C17's harness), the JOSE length/offset kernels (key wrap, CBC-HMAC Open, padding removal, AEAD decrypt) over stubbed primitives, enum helpers; NOT claimed: JWS/JWE/JWK parsing and OCSP (encoding/json, encoding/asn1, reflection, math/big are outside the engine), inputs longer than the stated bounds, and the linear-time clause (termination within the bound is shown, not a complexity class)",
			"allocation sizes that depend on symbolic length fields with more than 64 feasible values are explored for 64 values (evidence: size_sampled_sites)",
		}, commonAssumptions...),
		Harnesses: []harnessSpec{
			{Pkg: "amf0", Func: "HarnessC07_Amf0", Stall: true, Labels: []string{"c07-amf0", "c07-amf0-accepted"}, Bound: "every byte string of 0..10 bytes (thorough 0..13) through Discovery+UnmarshalBinary and through each concrete type's decoder"},
			{Pkg: "amf0", Func: "HarnessC07_Amf0Truncated", Stall: true, Labels: []string{"c07-amf0-trunc", "c07-amf0-trunc-accepted"}, Bound: "encodings of a container (object/ECMA/strict) nested in a container, with 4 kinds of leaf and an optional sibling, cut at every offset"},
			{Pkg: "amf0", Func: "HarnessC07_Amf0Linear", Steps: 200000000, NoValidate: true, Labels: []string{"c07-amf0-linear"}, Bound: "linear-time clause, AMF0: objects / ECMA arrays / strict arrays nested 32, 64, 128 deep and one object with 32, 64, 128 properties (leaf number symbolic); cost = SSA instructions interpreted + elements copied; cost(4n)-cost(2n) <= 2.5 (cost(2n)-cost(n)); native confirmation of a counterexample by wall time at a size where one decode takes milliseconds (cost(4n) <= 9 cost(n))"},
			{Pkg: "rtmp", Func: "HarnessC07_RtmpLinear", Steps: 200000000, NoValidate: true, Labels: []string{"c07-rtmp-linear"}, Bound: "linear-time clause, RTMP chunk reader: one message of 32/64/128 chunks (chunk size 1-2), 32/64/128 single-chunk messages with fmt 0-3 headers on one chunk stream, 32/64/128 messages on as many chunk streams"},
			{Pkg: "flv", Func: "HarnessC07_FlvLinear", Steps: 200000000, NoValidate: true, Labels: []string{"c07-flv-linear"}, Bound: "linear-time clause, FLV: a file of 48/96/192 tags; one audio / video tag body of 48/96/192 bytes"},
			{Pkg: "aac", Func: "HarnessC07_AacLinear", Steps: 200000000, NoValidate: true, Labels: []string{"c07-aac-linear"}, Bound: "linear-time clause, ADTS: a stream of 48/96/192 frames; one frame with 48/96/192 payload bytes"},
			{Pkg: "avc", Func: "HarnessC07_AvcLinear", Steps: 200000000, NoValidate: true, Labels: []string{"c07-avc-linear"}, Bound: "linear-time clause, AVC sample: 48/96/192 NAL units or one NAL unit of 48/96/192 bytes, length prefix 1/2/4 bytes"},
			{Pkg: "websocket", Func: "HarnessC07_WebsocketLinear", TimeFixed: true, Steps: 200000000, NoValidate: true, Labels: []string{"c07-websocket-linear"}, Bound: "linear-time clause, WebSocket reader: one message of 96/192/384 fragments, as many small messages with pings in between, one frame of 96/192/384 bytes; masked or not"},
			{Pkg: "json", Func: "HarnessC07_JsonLinear", Steps: 200000000, NoValidate: true, Labels: []string{"c07-json-linear"}, Bound: "linear-time clause, JSON+ reader (input delivered whole): a string literal, block comment, line comment or array text of 200/400/800 bytes"},
			{Pkg: "https/jose/cipher", Func: "HarnessC07_KeyWrapLinear", Steps: 200000000, NoValidate: true, Labels: []string{"c07-keywrap-linear"}, Bound: "linear-time clause, RFC 3394 key wrap / unwrap of 160/320/640 64-bit blocks with a deterministic stand-in block cipher"},
			{Pkg: "amf0", Func: "HarnessC07_Amf0Enums", Labels: []string{"c07-amf0-enums"}, Bound: "marker.String() over all 256 values"},
			{Pkg: "json", Func: "HarnessC07_Json", Stall: true, Labels: []string{"c07-json", "c07-json-accepted"}, Bound: "every byte string of 0..5 bytes (thorough 0..7) through NewJsonPlusReader+ReadAll, delivered whole, byte by byte, or split once at every offset"},
			{Pkg: "rtmp", Func: "HarnessC07_Chunks", Stall: true, Labels: []string{"c07-chunks"}, Bound: "ReadMessage until error over every byte string of 0..12 bytes (thorough 0..16), input chunk size default 128 or symbolic 1..4"},
			{Pkg: "rtmp", Func: "HarnessC07_ChunkStep", Stall: true, Labels: []string{"c07-chunkstep", "c07-chunkstep-message"}, Bound: "one chunk (header type forked, 0..18 arbitrary bytes, chunk size symbolic 1..4) from an arbitrary valid chunk-stream state: fresh / idle with symbolic inherited fields / message of 2..6 bytes partially received"},
			{Pkg: "rtmp", Func: "HarnessC07_Decode", Stall: true, Labels: []string{"c07-decode", "c07-decode-accepted"}, Bound: "DecodeMessage with symbolic type and payload of 0..13 bytes (thorough 0..16), with and without outstanding requests"},
			{Pkg: "rtmp", Func: "HarnessC07_Packets", Stall: true, Labels: []string{"c07-packets", "c07-packets-accepted"}, Bound: "UnmarshalBinary of each of the 12 packet kinds on 0..13 (thorough 0..16) arbitrary bytes"},
			{Pkg: "flv", Func: "HarnessC07_FlvDemux", Stall: true, Labels: []string{"c07-flv-demux", "c07-flv-tag"}, Bound: "0..16 (thorough 0..24) arbitrary bytes, alone or after a well-formed header; tag sizes > 40 only for 41, 65536, 2^24-1"},
			{Pkg: "flv", Func: "HarnessC07_FlvTags", Stall: true, Labels: []string{"c07-flv-tags"}, Bound: "audio and video packager Decode (and re-Encode, String()) on every byte string of 0..8 bytes"},
			{Pkg: "flv", Func: "HarnessC07_FlvEnums", Labels: []string{"c07-flv-enums"}, Bound: "String/ToHz/OpusToHz/From/OpusFrom of every flv enum with the receiver symbolic over uint8"},
			{Pkg: "aac", Func: "HarnessC07_Aac", Stall: true, Labels: []string{"c07-aac", "c07-aac-frame"}, Bound: "ADTS Decode (repeated on the remainder), ASC UnmarshalBinary, SetASC+Encode on every byte string of 0..12 bytes (thorough 0..14)"},
			{Pkg: "aac", Func: "HarnessC07_AacEnums", Labels: []string{"c07-aac-enums"}, Bound: "all aac enum helpers, receiver symbolic over uint8"},
			{Pkg: "avc", Func: "HarnessC07_Avc", Stall: true, Labels: []string{"c07-avc", "c07-avc-record", "c07-avc-sample"}, Bound: "NALU / record / sample (length size 1..4) UnmarshalBinary on every byte string of 0..10 bytes (thorough 0..14)"},
			{Pkg: "websocket", Func: "HarnessC07_Websocket", TimeFixed: true, Stall: true, Labels: []string{"c07-websocket"}, Bound: "NextReader/Read until error over every byte string of 0..5 bytes (thorough 0..7, also with a read limit), both roles; deeper states are covered from arbitrary reader states by C14_Step"},
			{Pkg: "https/jose/cipher", Func: "HarnessC07_KeyWrap", Stall: true, Labels: []string{"c07-keywrap", "c07-unwrap-ok", "c07-wrap-ok"}, Bound: "KeyUnwrap/KeyWrap on every input length 0..40 with symbolic bytes; block cipher stub with unconstrained output"},
			{Pkg: "https/jose/cipher", Func: "HarnessC07_CBCHMAC", Stall: true, Labels: []string{"c07-cbchmac", "c07-cbc-ok"}, Bound: "cbcAEAD.Open with nonce length in {0,8,15,16,17}, ciphertext+tag length in {0,1,15,16,17,31,32,33,48}, aad 0-1 bytes; HMAC and block cipher stubs with unconstrained outputs (both tag outcomes explored)"},
			{Pkg: "https/jose/cipher", Func: "HarnessC07_Unpad", Stall: true, Labels: []string{"c07-unpad", "c07-unpad-ok"}, Bound: "unpadBuffer on every buffer of length {0,1,15,16,17,32}"},
			{Pkg: "https/jose", Func: "HarnessC07_AeadDecrypt", Stall: true, Labels: []string{"c07-aead", "c07-aead-ok"}, Bound: "aeadContentCipher.decrypt with IV length in {0,1,11,12,13,16}, tag length in {0,1,15,16,17}, ciphertext 0-2 bytes over an AEAD stub that follows the documented cipher.AEAD contract (panics on a nonce of the wrong size)"},
			{Pkg: "avc", Func: "HarnessC07_AvcEnums", Labels: []string{"c07-avc-enums"}, Bound: "NALUType (uint8), AVCProfile (uint16), AVCLevel (uint8) String() over their whole range"},
		},
	})
	wsAssume := append([]string{
		"connections are constructed directly (newConn over an in-harness net.Conn); Dial/Upgrade (handshake, extension negotiation) and the JSON helpers are outside the claim (net/http, SHA-1, encoding/json are not encodable); per-message compression is covered for concrete payloads only (Huffman levels) and for symbolic payloads in stored blocks (level 0), context takeover is not offered by the library",
		"time.Now returns a fixed instant and timers never fire (write deadlines and the 1000 h lock wait never expire)",
		"websocket.maskBytes is interpreted from source for buffers below 64 bytes (longer ones use the byte-wise definition as a summary, justified by HarnessC13_Mask): its unsafe word loop runs on the engine's pointer model (byte slices as cells+offset, little-endian word views, word views; buffer addresses are 16-byte aligned constants except in HarnessC13_Mask, where they are symbolic so that every alignment is explored); the mask key source (math/rand) is an unconstrained symbolic value",
	}, commonAssumptions...)
	reg(&propSpec{
		ID:          "C14",
		Rule:        "Harnesses in harness/websocket/c14.go against a reference RFC 6455 receiver written in the harness: one frame from an arbitrary valid reader state with the whole header symbolic; sequences of frames of forked kinds with symbolic payloads; cut streams.",
		Assumptions: append([]string{"a one-byte close payload is not in the property's list and is not generated", "reader state invariant for the one-step harness: readLength <= readLimit when a limit is set, readLength = 0 when no message is in progress, both below 2^40"}, wsAssume...),
		Harnesses: []harnessSpec{
			{Pkg: "websocket", Func: "HarnessC14_Step", TimeFixed: true, Labels: []string{"step-close", "step-close-bad", "step-data", "step-limit", "step-ping", "step-pong", "step-violation", "step-topbit"},
				Bound: "both roles; 24 symbolic input bytes (2 header bytes, the 16/64-bit extended length incl. 2^63 and above, mask key, payload); state readFinal/readLength/readLimit symbolic; close frames up to code + 2 reason bytes, ping/pong up to 8 bytes"},
			{Pkg: "websocket", Func: "HarnessC14_Seq", TimeFixed: true, Labels: []string{"seq-close", "seq-eof", "seq-limit", "seq-violation"},
				Bound:  "both roles; sequences of 2 frames over 16 frame kinds (8 conformant incl. fragments/ping/pong/close, 8 violating: RSV, reserved opcode, fragmented or oversized control, wrong mask, bad close code, non-UTF-8 reason, top-bit length); first frame in 7/16/64-bit length form with 0/1/3 symbolic payload bytes; read limit in {none, 2}",
				BoundT: "sequences of 3 frames; read limit in {none,2}; not re-measured after the last reduction: a run that exceeds the 25-minute budget reports the truncation"},
			{Pkg: "websocket", Func: "HarnessC14_LimitAcross", TimeFixed: true, Labels: []string{"across-limit", "across-ok"}, Bound: "a message of two fragments (1-2 + 1-2 symbolic bytes) with 0-2 empty pings/pongs between them, read limit 1..4"},
			{Pkg: "websocket", Func: "HarnessC14_SmallBuf", TimeFixed: true, Labels: []string{"smallbuf"}, Bound: "configured read buffer of 1/16/64/124 bytes; a ping of 17/65/125 bytes (2 symbolic positions) followed by a 2-byte message"},
			{Pkg: "websocket", Func: "HarnessC14_Cut", TimeFixed: true, Labels: []string{"cut"}, Bound: "one message of 1-2 frames (1-3 + 0-2 symbolic bytes, 7/16-bit length form) cut at every offset inside it; whole and 1-byte reads"},
		},
	})
	reg(&propSpec{
		ID:          "C13",
		Rule:        "Harnesses in harness/websocket/c13.go: a writer endpoint (role forked) sends through a forked API; the captured wire is parsed by an independent RFC 6455 frame parser and read back by a peer endpoint.",
		Assumptions: wsAssume,
		Harnesses: []harnessSpec{
			{Pkg: "websocket", Func: "HarnessC13_RoundTrip", TimeFixed: true, Labels: []string{"roundtrip"},
				Bound:  "client or server; APIs {WriteMessage, NextWriter+2 Writes with every split, WriteString, ReadFrom from readers with/without (n,EOF) and 1-2 byte chunks, prepared message}; one message of 0..6 symbolic bytes with write buffer 1/4/16; one message of 125/126/127 bytes (3 symbolic positions) with write buffer 16/4096; two messages of 0..2 bytes; one message of 65535/65536 bytes in a single frame (write buffer 70000, WriteMessage and NextWriter+Writes); mask key symbolic",
				BoundT: "messages of 0..9 bytes; boundary sizes 125,126,127,4095,4096,4097,65535,65536; sessions of 2 messages through 5 APIs; reader fed whole or in 3-byte pieces"},
			{Pkg: "websocket", Func: "HarnessC13_Compressed", TimeFixed: true, Steps: 400000000, Labels: []string{"compressed"}, Bound: "per-message deflate, writer side: client or server; level BestSpeed/default (concrete pseudo-random payload) or 0 = stored blocks (symbolic payload up to 40 bytes); message of 0/1/40/100 bytes; write buffer 8/32 (1..15 frames); WriteMessage or NextWriter+2 Writes; frames parsed independently, RSV1 on the first frame only, payloads + 00 00 ff ff inflated by compress/flate give the message"},
			{Pkg: "websocket", Func: "HarnessC13_CompressedRead", TimeFixed: true, Steps: 400000000, Labels: []string{"compressed-read"}, Bound: "per-message deflate, reader side: a compress/flate sync-flushed stream without its 00 00 ff ff tail, level BestSpeed (concrete payload) or stored blocks (symbolic payload), message of 0/1/30 bytes, split over 1-3 frames at forked offsets (thorough: every offset), whole or 1-byte reads"},
			{Pkg: "websocket", Func: "HarnessC13_Mask", SymAddr: true, Labels: []string{"mask"}, Bound: "maskBytes (real implementation incl. the unsafe word loop) vs the byte-wise RFC 6455 definition: buffer lengths {0,1,7,15,16,17,23,24,25,31,33} with all bytes symbolic, key symbolic, start position 0..3, buffer address symbolic (every alignment)", BoundT: "lengths up to 100"},
			{Pkg: "websocket", Func: "HarnessC13_TruncWriter", Labels: []string{"truncwriter"}, Bound: "every input of 0..10 symbolic bytes split into 3 writes at every pair of offsets"},
		},
	})
	reg(&propSpec{
		ID:   "C15",
		Rule: "Harness in harness/websocket/c15.go: engine threads for one data writer (multi-frame message), 1-2 control senders and an optional closer on one connection; every order of their acquiring operations (c.mu receive/select, writeErrMu, result channels) is a forked schedule decision, reduced by sleep sets; the captured transport writes are parsed by the independent frame parser.",
		Assumptions: append([]string{
			"scheduling choices are made before acquiring operations (lock, channel receive, blocking send, select); releasing operations (unlock, non-blocking buffered send) need none; sleep sets prune reorderings of independent operations (operations on different synchronisation objects); both reductions are sound for data-race-free executions and races are reported by the vector-clock detector",
			"no concurrent reader thread (it shares state with writers only through WriteControl); the data writer works without or (no closer, buffered path) with a write deadline of its own and closes its message writer whatever Write returned; a finite deadline may expire only while its owner waits for the write lock (the timer is decided when the select first looks at it); the harness transport honours write deadlines like a net.Conn in one respect: a deadline put on the connection while a Write without deadline is in progress cuts that Write short",
			"schedule-dependent counterexamples are reproduced natively by re-running the case under schedule perturbation (up to 400 attempts, -race); a counterexample that does not reproduce is reported as ENGINE-MISMATCH, not as a violation",
		}, wsAssume...),
		Harnesses: []harnessSpec{
			{Pkg: "websocket", Func: "HarnessC15_Concurrent", TimeFixed: true, TimersMayFire: true, Race: true, Labels: []string{"concurrent"},
				Bound:  "client or server; data message of 2 (thorough 2-3) symbolic bytes sent through a 15-byte write buffer (3-4 frames) or, as server, 31 bytes in one unbuffered write; 1 ping sender with a 1-byte (thorough 0-1) payload, without deadline or with a deadline that may expire while it waits for the write lock; optional close sender; data writer optionally under its own write deadline; transport that applies a deadline set during a write; all schedules",
				BoundT: "1-2 control senders (ping, pong) when no close sender takes part; with the close sender, 1 control sender (the 4-party space, >5 million schedules, was explored once in 35 min without a counterexample and is outside the registered bound)"},
		},
	})
	reg(&propSpec{
		ID:   "C18",
		Rule: "Harnesses in harness/logger/c18.go: engine threads creating contexts concurrently (all schedules, vector-clock race detection on the id counter); aliasing; which id each formatting path selects per kind of context.",
		Assumptions: append([]string{
			"claimed: id uniqueness under concurrency, aliasing, and the id selected for the prefix (the arguments handed to the formatter); NOT claimed: that each call emits exactly one complete non-interleaved line (log.Logger's mutex, fmt, time formatting and os.File are outside the engine)",
			"context.WithValue/Value are interpreted from source; reflectlite.TypeOf(key).Comparable() is answered from go/types; os.Getpid is a fixed value",
		}, commonAssumptions...),
		Harnesses: []harnessSpec{
			{Pkg: "logger", Func: "HarnessC18_Unique", Race: true, Labels: []string{"unique"}, Bound: "2 goroutines (thorough 2-4), each creating 1-2 contexts; all schedules; race detection"},
			{Pkg: "logger", Func: "HarnessC18_Alias", Labels: []string{"alias-fresh", "alias-nil", "alias-src"}, Bound: "parent with or without id; source with id / without id / nil"},
			{Pkg: "logger", Func: "HarnessC18_Rotation", Labels: []string{"rotation"}, Bound: "create, Switch to a closable / plain writer (optionally Close), create, alias, create: all ids pairwise distinct"},
			{Pkg: "logger", Func: "HarnessC18_Prefix", Labels: []string{"prefix"}, Bound: "context kinds {nil, Cid() object, context.Context with id, context.Context without id} x {Println-style, Printf-style}; ids from {0,7,1000,-3}"},
		},
	})
	reg(&propSpec{
		ID:   "C17",
		Rule: "Harness in harness/json/c17.go: JSON documents from 4 templates whose string contents (plain characters and escape sequences) and comment contents are symbolic bytes; comments placed in forked slots between tokens; forked read segmentation. The symbolic run asserts that the reader's output is the document with its comments removed; every counterexample is replayed natively through the property's real oracle (encoding/json on the undecorated text vs Unmarshal through the reader) and only a difference there is reported.",
		Assumptions: append([]string{
			"string characters are printable ASCII other than quote and backslash, or an escape \\X with X in \"\\/bfnrt; comment bodies are visible bytes (> 0x20) without their terminator",
			"bufio.Scanner, bytes.Buffer and io.ReadAll are interpreted from source; bytes.Index is an engine intrinsic with the obvious semantics",
			"documents longer than bufio.Scanner's 64 KiB token limit and other marker tables of NewCommentReader are outside the claim",
		}, commonAssumptions...),
		Harnesses: []harnessSpec{
			{Pkg: "json", Func: "HarnessC17_Strip", Labels: []string{"strip-comment", "strip-plain"},
				Bound:  "templates [S] (S up to 3 units), {S: S}, [S,S] (1 unit each), [literal]; 0-1 comment (line with/without final newline at end of input, or block; 0-2 symbolic content bytes) in any slot; reads: whole, 1 byte, one split inside or right after a comment marker",
				BoundT: "as quick, with one split at every offset of the document"},
		},
	})
}
