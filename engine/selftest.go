// `gosymex selftest`: interpret the repository's own unit tests concretely in the engine and
// require the verdicts `go test` gives (all pass on the unchanged tree). This validates the
// interpreter's concrete semantics and the stubs on code the harnesses did not write.
package main

import (
	"fmt"
	"go/token"
	"go/types"
	"os"
	"sort"
	"strings"
	"time"

	"golang.org/x/tools/go/packages"
	"golang.org/x/tools/go/ssa"
	"golang.org/x/tools/go/ssa/ssautil"
)

var selftestFailed bool
var selftestLog []string

func init() {
	fail := func(fatal bool) externalFn {
		return func(fr *frame, a []value) value {
			selftestFailed = true
			msg := ""
			if len(a) > 1 {
				if s, ok := a[1].(string); ok {
					msg = s
				}
			}
			selftestLog = append(selftestLog, "failure reported by the test: "+msg)
			if fatal {
				panic(pathAbort{abStop, "t.Fatal"})
			}
			return nil
		}
	}
	nop := func(fr *frame, a []value) value { return nil }
	for _, m := range []string{"Errorf", "Error", "Fail"} {
		externals["(*testing.common)."+m] = fail(false)
	}
	for _, m := range []string{"Fatalf", "Fatal", "FailNow"} {
		externals["(*testing.common)."+m] = fail(true)
	}
	for _, m := range []string{"Logf", "Log", "Helper", "Cleanup", "Setenv"} {
		externals["(*testing.common)."+m] = nop
	}
	for _, m := range []string{"Skip", "Skipf", "SkipNow"} {
		externals["(*testing.common)."+m] = func(fr *frame, a []value) value { panic(pathAbort{abStop, "t.Skip"}) }
	}
	externals["(*testing.common).Failed"] = func(fr *frame, a []value) value { return selftestFailed }
	externals["(*testing.common).Name"] = func(fr *frame, a []value) value { return "selftest" }
	externals["(*testing.T).Parallel"] = nop
	externals["(*testing.T).Run"] = func(fr *frame, a []value) value {
		call(fr.i, fr, 0, a[2], []value{a[0]})
		return !selftestFailed
	}
}

func cmdSelftest(args []string) int {
	pkgs := []string{"amf0", "aac", "errors"}
	if len(args) > 0 {
		pkgs = args
	}
	total, passed := 0, 0
	start := time.Now()
	for _, pkgDir := range pkgs {
		cfg := &packages.Config{
			Mode:  packages.LoadAllSyntax,
			Dir:   repoDir(),
			Tests: true,
			Env:   append(os.Environ(), "GOFLAGS=-mod=mod", "GOPROXY=off", "GOSUMDB=off", "GOTOOLCHAIN=local", "CGO_ENABLED=0"),
		}
		initial, err := packages.Load(cfg, "./"+pkgDir)
		if err != nil {
			fmt.Fprintln(os.Stderr, "load:", err)
			return 2
		}
		prog, spkgs := ssautil.AllPackages(initial, ssa.InstantiateGenerics)
		prog.Build()
		var tp *ssa.Package
		for k, p := range initial {
			if strings.Contains(p.ID, "[") && strings.HasSuffix(p.PkgPath, "/"+pkgDir) && spkgs[k] != nil {
				tp = spkgs[k]
			}
		}
		if tp == nil {
			fmt.Printf("selftest %s: no in-package tests\n", pkgDir)
			continue
		}
		lp := &loadedProgram{prog: prog, main: tp}
		for _, p := range prog.AllPackages() {
			if lp.isTarget(p.Pkg.Path()) {
				lp.targets = append(lp.targets, p)
			}
		}
		hc := &harnessCfg{Prop: "selftest", Pkg: pkgDir, StepBudget: 50000000, DecBudget: 10, concLimit: 4, Timeout: 10 * time.Second, Workers: 1}
		ex := newExplorer(hc)
		w, err := newWorker(0, ex, lp)
		if err != nil {
			fmt.Fprintln(os.Stderr, err)
			return 2
		}
		tpkg := prog.ImportedPackage("testing")
		tT := tpkg.Type("T").Object().Type()
		var names []string
		for name, m := range tp.Members {
			if fn, ok := m.(*ssa.Function); ok && strings.HasPrefix(name, "Test") && fn.Signature.Params().Len() == 1 {
				if pt, ok := fn.Signature.Params().At(0).Type().(*types.Pointer); ok && types.Identical(pt.Elem(), tT) {
					names = append(names, name)
				}
			}
		}
		sort.Strings(names)
		for _, name := range names {
			total++
			selftestFailed = false
			selftestLog = nil
			verdict := "pass"
			func() {
				defer func() {
					if r := recover(); r != nil {
						if pa, ok := r.(pathAbort); ok && pa.kind == abStop {
							return
						}
						selftestFailed = true
						selftestLog = append(selftestLog, fmt.Sprint("engine: ", firstLine(fmt.Sprint(r))))
					}
				}()
				w.in.p = &path{item: &workItem{}, model: Model{}, stepBudget: hc.StepBudget, decBudget: hc.DecBudget, reached: map[string]bool{}}
				w.in.steps = 0
				w.initTargets()
				var cell value = zero(tT)
				main := &thread{id: 0, baton: make(chan struct{}, 1), name: "main", vc: vclock{1}}
				w.in.threads = []*thread{main}
				w.in.cur = main
				call(w.in, nil, token.NoPos, tp.Func(name), []value{&cell})
				w.in.killThreads()
			}()
			if selftestFailed {
				verdict = "FAIL"
			} else {
				passed++
			}
			if verdict != "pass" {
				fmt.Printf("selftest %s.%s: %s %v\n", pkgDir, name, verdict, selftestLog)
			}
		}
		w.close()
		fmt.Printf("selftest %s: %d tests interpreted\n", pkgDir, len(names))
	}
	fmt.Printf("selftest: %d/%d repository tests give the verdict of `go test` (pass) when interpreted by the engine, %.1fs\n", passed, total, time.Since(start).Seconds())
	if passed != total {
		return 1
	}
	return 0
}
