// Long-lived SMT solver sessions (z3 -in / cvc5 --incremental) with an assertion stack that
// is kept in sync with the current path condition.
package main

import (
	"bufio"
	"os"
	"fmt"
	"io"
	"os/exec"
	"strconv"
	"strings"
	"sync"
	"time"
)

type SatResult int

const (
	Unsat SatResult = iota
	Sat
	Unknown
)

func (r SatResult) String() string {
	return [...]string{"unsat", "sat", "unknown"}[r]
}

type Solver struct {
	kind    string // "z3", "z3-new", "cvc5"
	cmd     *exec.Cmd
	in      io.WriteCloser
	out     *bufio.Reader
	ts      *TermStore
	sess    int
	slot    int
	stack   []*Term // asserted path-condition terms, one push level each
	timeout time.Duration
	// statistics
	Queries   int
	SolveTime time.Duration
	Errors    int
	defs      int
	trace     io.Writer
}

var (
	sessCounter   int
	sessCounterMu sync.Mutex
)

func nextSess() int {
	sessCounterMu.Lock()
	defer sessCounterMu.Unlock()
	sessCounter++
	return sessCounter
}

func solverArgs(kind string, timeoutMs int) (string, []string) {
	switch kind {
	case "z3":
		return "z3", []string{"-in", fmt.Sprintf("-t:%d", timeoutMs)}
	case "z3-new":
		return "z3-new", []string{"-in", fmt.Sprintf("-t:%d", timeoutMs)}
	case "cvc5":
		return "cvc5", []string{"--incremental", "--lang=smt2", "--produce-models", fmt.Sprintf("--tlimit-per=%d", timeoutMs), "--fp-exp"}
	}
	panic("unknown solver " + kind)
}

func NewSolver(kind string, ts *TermStore, timeout time.Duration, slot int) (*Solver, error) {
	s := &Solver{kind: kind, ts: ts, timeout: timeout, sess: nextSess(), slot: slot}
	if err := s.start(); err != nil {
		return nil, err
	}
	return s, nil
}

func (s *Solver) start() error {
	bin, args := solverArgs(s.kind, int(s.timeout/time.Millisecond))
	s.cmd = exec.Command(bin, args...)
	in, err := s.cmd.StdinPipe()
	if err != nil {
		return err
	}
	out, err := s.cmd.StdoutPipe()
	if err != nil {
		return err
	}
	s.cmd.Stderr = nil
	if err := s.cmd.Start(); err != nil {
		return err
	}
	s.in = in
	s.out = bufio.NewReaderSize(out, 1<<16)
	s.stack = nil
	s.defs = 0
	pre := "(set-option :global-declarations true)\n(set-option :produce-models true)\n"
	if s.kind == "cvc5" {
		pre += "(set-logic ALL)\n"
	}
	_, err = io.WriteString(s.in, pre)
	return err
}

func (s *Solver) Close() {
	if s.cmd != nil {
		s.in.Close()
		s.cmd.Process.Kill()
		s.cmd.Wait()
		s.cmd = nil
	}
}

// restart gives the session a fresh process and a fresh definition namespace.
func (s *Solver) restart(newSess int) error {
	s.Close()
	s.sess = newSess
	return s.start()
}

func (s *Solver) send(str string) error {
	if s.trace != nil {
		io.WriteString(s.trace, str)
	}
	_, err := io.WriteString(s.in, str)
	return err
}

func (s *Solver) readLine() (string, error) {
	line, err := s.out.ReadString('\n')
	return strings.TrimSpace(line), err
}

// readSexp reads one balanced s-expression (possibly spanning lines).
func (s *Solver) readSexp() (string, error) {
	var sb strings.Builder
	depth := 0
	started := false
	for {
		line, err := s.out.ReadString('\n')
		if err != nil {
			return sb.String(), err
		}
		sb.WriteString(line)
		inStr := false
		for _, c := range line {
			switch {
			case c == '"':
				inStr = !inStr
			case inStr:
			case c == '(':
				depth++
				started = true
			case c == ')':
				depth--
			}
		}
		if started && depth <= 0 {
			return sb.String(), nil
		}
		if !started && strings.TrimSpace(line) != "" {
			return sb.String(), nil
		}
	}
}

// sync makes the solver's assertion stack equal to pc.
func (s *Solver) sync(pc []*Term) error {
	common := 0
	for common < len(s.stack) && common < len(pc) && s.stack[common] == pc[common] {
		common++
	}
	var sb strings.Builder
	if n := len(s.stack) - common; n > 0 {
		fmt.Fprintf(&sb, "(pop %d)\n", n)
		s.stack = s.stack[:common]
	}
	for _, t := range pc[common:] {
		s.ts.Define(&sb, t, s.slot, s.sess)
		sb.WriteString("(push 1)\n")
		s.assertStr(&sb, t)
		s.stack = append(s.stack, t)
	}
	if sb.Len() > 0 {
		return s.send(sb.String())
	}
	return nil
}

func (s *Solver) assertStr(sb *strings.Builder, t *Term) {
	if t.hasFP {
		var aux []string
		s.ts.AuxOf(t, map[int]bool{}, &aux)
		for _, a := range aux {
			fmt.Fprintf(sb, "(assert %s)\n", a)
		}
	}
	fmt.Fprintf(sb, "(assert %s)\n", t.ref())
}

// Check decides satisfiability of pc AND extra. On Sat it returns values for vars.
func (s *Solver) Check(pc []*Term, extra *Term, vars []*Term) (SatResult, Model, error) {
	start := time.Now()
	defer func() {
		d := time.Since(start)
		s.SolveTime += d
		s.Queries++
		if slowQ && d > 2*time.Second {
			sz := 0
			if extra != nil {
				sz = extra.size
			}
			fmt.Fprintf(os.Stderr, "[slow query] %s %.1fs pc=%d extra.size=%d vars=%d hasFP=%v\n", s.kind, d.Seconds(), len(pc), sz, len(vars), extra != nil && extra.hasFP)
		}
	}()
	if s.ts.next-s.defs > 400000 {
		// keep the solver's symbol table bounded
		if err := s.restart(nextSess()); err != nil {
			return Unknown, nil, err
		}
		s.defs = s.ts.next
	}
	if err := s.sync(pc); err != nil {
		return Unknown, nil, err
	}
	var sb strings.Builder
	if extra != nil {
		s.ts.Define(&sb, extra, s.slot, s.sess)
	}
	for _, v := range vars {
		s.ts.Define(&sb, v, s.slot, s.sess)
	}
	sb.WriteString("(push 1)\n")
	if extra != nil {
		s.assertStr(&sb, extra)
	}
	sb.WriteString("(check-sat)\n")
	if err := s.send(sb.String()); err != nil {
		return Unknown, nil, err
	}
	line, err := s.readLine()
	for err == nil && line == "" {
		line, err = s.readLine()
	}
	if err != nil {
		return Unknown, nil, fmt.Errorf("solver %s died: %v", s.kind, err)
	}
	var res SatResult
	switch {
	case line == "sat":
		res = Sat
	case line == "unsat":
		res = Unsat
	case line == "unknown" || line == "timeout":
		res = Unknown
	default:
		// (error ...) or anything unexpected: inconclusive; resynchronise by restarting
		s.Errors++
		s.restart(nextSess())
		return Unknown, nil, fmt.Errorf("solver %s: unexpected answer %q", s.kind, line)
	}
	var model Model
	if res == Sat && len(vars) > 0 {
		var q strings.Builder
		q.WriteString("(get-value (")
		for _, v := range vars {
			q.WriteString(v.name)
			q.WriteString(" ")
		}
		q.WriteString("))\n")
		if err := s.send(q.String()); err != nil {
			return Unknown, nil, err
		}
		resp, err := s.readSexp()
		if err != nil {
			return Unknown, nil, err
		}
		if strings.Contains(resp, "(error") {
			s.Errors++
			s.send("(pop 1)\n")
			return Unknown, nil, fmt.Errorf("solver %s get-value: %s", s.kind, resp)
		}
		model, err = parseModel(resp)
		if err != nil {
			s.send("(pop 1)\n")
			return Unknown, nil, err
		}
	}
	if err := s.send("(pop 1)\n"); err != nil {
		return Unknown, nil, err
	}
	return res, model, nil
}

// parseModel parses ((name #x..) (name #b..) (name true) ...).
func parseModel(resp string) (Model, error) {
	m := Model{}
	toks := tokenize(resp)
	// expected shape: ( ( name val ) ( name val ) ... )
	i := 0
	if i >= len(toks) || toks[i] != "(" {
		return nil, fmt.Errorf("bad model: %q", resp)
	}
	i++
	for i < len(toks) && toks[i] == "(" {
		if i+3 >= len(toks) {
			return nil, fmt.Errorf("bad model: %q", resp)
		}
		name := toks[i+1]
		val := toks[i+2]
		var v uint64
		var err error
		switch {
		case val == "true":
			v = 1
		case val == "false":
			v = 0
		case strings.HasPrefix(val, "#x"):
			v, err = strconv.ParseUint(val[2:], 16, 64)
		case strings.HasPrefix(val, "#b"):
			v, err = strconv.ParseUint(val[2:], 2, 64)
		case val == "(":
			// (_ bv123 8)
			if i+5 < len(toks) && toks[i+3] == "_" && strings.HasPrefix(toks[i+4], "bv") {
				v, err = strconv.ParseUint(toks[i+4][2:], 10, 64)
				// skip to the matching close
				j := i + 3
				for j < len(toks) && toks[j] != ")" {
					j++
				}
				i = j - 2
			} else {
				return nil, fmt.Errorf("bad model value in %q", resp)
			}
		default:
			return nil, fmt.Errorf("bad model value %q", val)
		}
		if err != nil {
			return nil, err
		}
		m[name] = v
		i += 4
	}
	return m, nil
}

func tokenize(s string) []string {
	var toks []string
	cur := strings.Builder{}
	flush := func() {
		if cur.Len() > 0 {
			toks = append(toks, cur.String())
			cur.Reset()
		}
	}
	for _, c := range s {
		switch c {
		case '(', ')':
			flush()
			toks = append(toks, string(c))
		case ' ', '\n', '\t', '\r':
			flush()
		default:
			cur.WriteRune(c)
		}
	}
	flush()
	return toks
}

var slowQ = os.Getenv("GOSYMEX_SLOWQ") != ""
