// Environment stubs, summaries and intrinsics. Every entry here is part of each claim that
// uses it (evidence lists the ones actually hit).
package main

import (
	"fmt"
	"go/types"
	"math"
	"strconv"
	"strings"

	"golang.org/x/tools/go/ssa"
)

type externalFn func(fr *frame, args []value) value

// notHandled is returned by a stub that declines: the function's own SSA body is interpreted.
type notHandled struct{}

var externals = map[string]externalFn{}

func lookupExternal(i *interpreter, fn *ssa.Function, name string) externalFn {
	if ext, ok := externals[name]; ok {
		if i.w != nil {
			i.w.stubsUsed[name] = true
		}
		return ext
	}
	if ext := atomicExternal(i, fn, name); ext != nil {
		if i.w != nil {
			i.w.stubsUsed["sync/atomic (engine intrinsics)"] = true
		}
		return ext
	}
	// harness API: bodyless v* functions of a package under test
	if fn.Blocks == nil && fn.Pkg != nil && strings.HasPrefix(fn.Name(), "v") {
		if ext, ok := harnessAPI[fn.Name()]; ok {
			return ext
		}
	}
	return nil
}

func (i *interpreter) newOpaque() opaqueStr {
	i.w.opaqueCtr++
	return opaqueStr{i.w.opaqueCtr}
}

// nativeArgs converts concrete basic values to native Go values for formatting.
func nativeArgs(vs []value) ([]interface{}, bool) {
	out := make([]interface{}, len(vs))
	for k, v := range vs {
		if ifc, ok := v.(iface); ok {
			if ifc.t == nil {
				out[k] = nil
				continue
			}
			if _, basic := ifc.t.Underlying().(*types.Basic); !basic {
				return nil, false
			}
			if named, ok := ifc.t.(*types.Named); ok && named.NumMethods() > 0 {
				return nil, false // may have String()/Error()
			}
			v = ifc.v
		}
		switch v := v.(type) {
		case bool, int, int8, int16, int32, int64, uint, uint8, uint16, uint32, uint64, uintptr, float32, float64, string:
			out[k] = v
		default:
			return nil, false
		}
	}
	return out, true
}

func sprintfStub(fr *frame, format value, rest value) value {
	i := fr.i
	var args []value
	if rest != nil {
		args = rest.([]value)
	}
	if f, ok := format.(string); ok {
		if na, ok := nativeArgs(args); ok {
			return fmt.Sprintf(f, na...)
		}
	}
	return i.newOpaque()
}

func (i *interpreter) errorString(msg value) value {
	pkg := i.prog.ImportedPackage("errors")
	t := pkg.Type("errorString").Object().Type()
	var cell value = structure{msg}
	return iface{t: types.NewPointer(t), v: &cell}
}

func init() {
	for k, v := range map[string]externalFn{
		"fmt.Sprintf": func(fr *frame, a []value) value { return sprintfStub(fr, a[0], a[1]) },
		"fmt.Errorf": func(fr *frame, a []value) value {
			return fr.i.errorString(sprintfStub(fr, a[0], a[1]))
		},
		"fmt.Sprint": func(fr *frame, a []value) value {
			if na, ok := nativeArgs(a[0].([]value)); ok {
				return fmt.Sprint(na...)
			}
			return fr.i.newOpaque()
		},
		"fmt.Sprintln": func(fr *frame, a []value) value {
			if na, ok := nativeArgs(a[0].([]value)); ok {
				return fmt.Sprintln(na...)
			}
			return fr.i.newOpaque()
		},
		"fmt.Fprintf":  func(fr *frame, a []value) value { return tuple{0, iface{}} },
		"fmt.Fprintln": func(fr *frame, a []value) value { return tuple{0, iface{}} },
		"fmt.Fprint":   func(fr *frame, a []value) value { return tuple{0, iface{}} },
		"fmt.Printf":   func(fr *frame, a []value) value { return tuple{0, iface{}} },
		"fmt.Println":  func(fr *frame, a []value) value { return tuple{0, iface{}} },
		"fmt.Print":    func(fr *frame, a []value) value { return tuple{0, iface{}} },

		"github.com/ossrs/go-oryx-lib/errors.callers": func(fr *frame, a []value) value {
			var cell value = []value(nil)
			return &cell
		},
		"runtime.Callers":    func(fr *frame, a []value) value { return 0 },
		"runtime.GOMAXPROCS": func(fr *frame, a []value) value { return 1 },
		"runtime.Gosched":    func(fr *frame, a []value) value { fr.i.yield("Gosched"); return nil },
		"runtime.KeepAlive":  func(fr *frame, a []value) value { return nil },
		"runtime.SetFinalizer": func(fr *frame, a []value) value { return nil },
		"os.Getpid":          func(fr *frame, a []value) value { return 4242 },

		"math.Float64bits": func(fr *frame, a []value) value {
			if s, ok := a[0].(*sym); ok {
				return &sym{s.t, types.Uint64}
			}
			return math.Float64bits(a[0].(float64))
		},
		"math.Float64frombits": func(fr *frame, a []value) value {
			if s, ok := a[0].(*sym); ok {
				return &sym{s.t, types.Float64}
			}
			return math.Float64frombits(a[0].(uint64))
		},
		"math.Float32bits":     func(fr *frame, a []value) value { return math.Float32bits(concF32(fr, a[0])) },
		"math.Float32frombits": func(fr *frame, a []value) value { return math.Float32frombits(uint32(fr.i.concreteInt(a[0], "Float32frombits"))) },
		"math.IsNaN": func(fr *frame, a []value) value {
			if s, ok := a[0].(*sym); ok {
				return fr.i.mkBool(fr.i.ts.Un(OpFIsNaN, s.t))
			}
			f := a[0].(float64)
			return f != f
		},
		"math.IsInf": func(fr *frame, a []value) value {
			i := fr.i
			sign := int(i.concreteInt(a[1], "IsInf sign"))
			if s, ok := a[0].(*sym); ok {
				ts := i.ts
				pinf := ts.Eq(s.t, ts.Const(64, math.Float64bits(math.Inf(1))))
				ninf := ts.Eq(s.t, ts.Const(64, math.Float64bits(math.Inf(-1))))
				switch {
				case sign > 0:
					return i.mkBool(pinf)
				case sign < 0:
					return i.mkBool(ninf)
				}
				return i.mkBool(ts.Or(pinf, ninf))
			}
			return math.IsInf(a[0].(float64), sign)
		},
		"math.Inf": func(fr *frame, a []value) value { return math.Inf(int(fr.i.concreteInt(a[0], "Inf sign"))) },
		"math.NaN": func(fr *frame, a []value) value { return math.NaN() },

		// bytes / strings intrinsics (assembly in the real library)
		"bytes.Equal":                 func(fr *frame, a []value) value { return bytesEqual(fr.i, a[0].([]value), a[1].([]value)) },
		"internal/bytealg.Equal":      func(fr *frame, a []value) value { return bytesEqual(fr.i, a[0].([]value), a[1].([]value)) },
		"bytes.IndexByte":             func(fr *frame, a []value) value { return indexByte(fr.i, a[0].([]value), a[1]) },
		"internal/bytealg.IndexByte":  func(fr *frame, a []value) value { return indexByte(fr.i, a[0].([]value), a[1]) },
		"internal/bytealg.IndexByteString": func(fr *frame, a []value) value { return indexByte(fr.i, strBytes(a[0]), a[1]) },
		"strings.IndexByte":           func(fr *frame, a []value) value { return indexByte(fr.i, strBytes(a[0]), a[1]) },
		"bytes.Index":                 func(fr *frame, a []value) value { return indexSeq(fr.i, a[0].([]value), a[1].([]value)) },
		"strings.Index":               func(fr *frame, a []value) value { return indexSeq(fr.i, strBytes(a[0]), strBytes(a[1])) },
		"internal/bytealg.Count":      func(fr *frame, a []value) value { return countByte(fr.i, a[0].([]value), a[1]) },
		"internal/bytealg.CountString": func(fr *frame, a []value) value { return countByte(fr.i, strBytes(a[0]), a[1]) },
		"bytes.Compare":               func(fr *frame, a []value) value { return bytesCompare(fr.i, a[0].([]value), a[1].([]value)) },
		"internal/bytealg.Compare":    func(fr *frame, a []value) value { return bytesCompare(fr.i, a[0].([]value), a[1].([]value)) },
		"internal/bytealg.MakeNoZero": func(fr *frame, a []value) value {
			n := fr.i.concreteInt(a[0], "MakeNoZero")
			s := make([]value, n)
			for k := range s {
				s[k] = uint8(0)
			}
			return s
		},
		"(*sync.Mutex).Lock":      func(fr *frame, a []value) value { mutexLock(fr.i, a[0].(*value), false); return nil },
		"(*sync.Mutex).TryLock":   func(fr *frame, a []value) value { return mutexLock(fr.i, a[0].(*value), true) },
		"(*sync.Mutex).Unlock":    func(fr *frame, a []value) value { mutexUnlock(fr.i, a[0].(*value)); return nil },
		"(*sync.RWMutex).Lock":    func(fr *frame, a []value) value { mutexLock(fr.i, a[0].(*value), false); return nil },
		"(*sync.RWMutex).Unlock":  func(fr *frame, a []value) value { mutexUnlock(fr.i, a[0].(*value)); return nil },
		"(*sync.RWMutex).RLock":   func(fr *frame, a []value) value { mutexLock(fr.i, a[0].(*value), false); return nil },
		"(*sync.RWMutex).RUnlock": func(fr *frame, a []value) value { mutexUnlock(fr.i, a[0].(*value)); return nil },
		"(time.Time).Sub": timeSub,
		"time.Now":        timeNow,
		"time.Sleep":      func(fr *frame, a []value) value { fr.i.yield("time.Sleep"); return nil },
		"time.runtimeNano": func(fr *frame, a []value) value { return int64(1) },
		"time.now":        func(fr *frame, a []value) value { return tuple{int64(1700000000), int32(0), int64(1)} },
		"internal/race.Enabled": nil,
		"unsafe.String":         nil,
		"strings.(*Builder).copyCheck": func(fr *frame, a []value) value { return nil },
		"(*strings.Builder).copyCheck": func(fr *frame, a []value) value { return nil },
		"(*strings.Builder).String": func(fr *frame, a []value) value {
			// Builder.String uses unsafe.String on its buffer
			b := (*a[0].(*value)).(structure)
			return mkStr(b[1].([]value))
		},
		"internal/reflectlite.TypeOf": func(fr *frame, a []value) value {
			x := a[0].(iface)
			if x.t == nil {
				return iface{}
			}
			pkg := fr.i.prog.ImportedPackage("internal/reflectlite")
			rt := pkg.Type("rtype").Object().Type()
			return iface{t: rt, v: rtype{x.t}}
		},
		"(internal/reflectlite.rtype).Comparable": func(fr *frame, a []value) value {
			return types.Comparable(a[0].(rtype).t)
		},
		"(internal/reflectlite.rtype).String": func(fr *frame, a []value) value { return a[0].(rtype).t.String() },
		"internal/godebug.New":            nil,
		"(*internal/godebug.Setting).Value": func(fr *frame, a []value) value { return "" },
		"(*internal/godebug.Setting).IncNonDefault": func(fr *frame, a []value) value { return nil },
	} {
		if v != nil {
			externals[k] = v
		}
	}
}

func concF32(fr *frame, v value) float32 {
	if f, ok := v.(float32); ok {
		return f
	}
	fr.i.abort(abUnsupported, "symbolic float32")
	return 0
}

func bytesEqual(i *interpreter, a, b []value) value {
	if len(a) != len(b) {
		return false
	}
	var acc value = true
	u8 := types.Typ[types.Uint8]
	for k := range a {
		acc = i.and(acc, equalsV(i, u8, a[k], b[k]))
		if acc == false {
			return false
		}
	}
	return acc
}

// indexByte returns the index of the first c in b or -1; with symbolic bytes the result
// is decided position by position (one fork per position).
func indexByte(i *interpreter, b []value, c value) value {
	u8 := types.Typ[types.Uint8]
	for k := range b {
		if i.truth(equalsV(i, u8, b[k], c)) {
			return k
		}
	}
	return -1
}

func countByte(i *interpreter, b []value, c value) value {
	u8 := types.Typ[types.Uint8]
	n := 0
	for k := range b {
		if i.truth(equalsV(i, u8, b[k], c)) {
			n++
		}
	}
	return n
}

func indexSeq(i *interpreter, s, sep []value) value {
	n := len(sep)
	for k := 0; k+n <= len(s); k++ {
		if i.truth(bytesEqual(i, s[k:k+n], sep)) {
			return k
		}
	}
	return -1
}

func bytesCompare(i *interpreter, a, b []value) value {
	n := min(len(a), len(b))
	u8 := types.Typ[types.Uint8]
	for k := 0; k < n; k++ {
		if i.truth(equalsV(i, u8, a[k], b[k])) {
			continue
		}
		var lt value
		if isSym(a[k]) || isSym(b[k]) {
			lt = i.mkBool(i.ts.Bin(OpUlt, i.term(a[k], types.Uint8), i.term(b[k], types.Uint8)))
		} else {
			lt = a[k].(uint8) < b[k].(uint8)
		}
		if i.truth(lt) {
			return -1
		}
		return 1
	}
	switch {
	case len(a) < len(b):
		return -1
	case len(a) > len(b):
		return 1
	}
	return 0
}

// Mutexes are engine objects keyed by the address of the sync.Mutex value (RWMutex is
// modelled as an exclusive lock, which only removes reader/reader concurrency).
type mutexState struct {
	locked bool
	owner  int
	vc     vclock
}

func (i *interpreter) mutex(p *value) *mutexState {
	if i.mutexes == nil {
		i.mutexes = map[*value]*mutexState{}
	}
	m := i.mutexes[p]
	if m == nil {
		m = &mutexState{}
		i.mutexes[p] = m
	}
	return m
}

func mutexLock(i *interpreter, p *value, try bool) value {
	if p == nil {
		panic(runtimeError("invalid memory address or nil pointer dereference"))
	}
	m := i.mutex(p)
	i.yield("mutex lock", m)
	if m.locked {
		if try {
			return false
		}
		i.block("mutex lock", func() bool { return !m.locked })
	}
	m.locked = true
	if i.cur != nil {
		m.owner = i.cur.id
	}
	i.acquire(&m.vc)
	return true
}

func mutexUnlock(i *interpreter, p *value) {
	m := i.mutex(p)
	if !m.locked {
		panic(targetPanic{iface{i.runtimeErrorString, "sync: unlock of unlocked mutex"}})
	}
	i.release(&m.vc)
	m.locked = false
	if i.threaded() {
		i.wake([]interface{}{m})
	}
	// no scheduling choice after a release: switching here is equivalent to switching before
	// this thread's next acquiring operation (everything in between is thread-local or a race)
}

// timeSub summarises time.Time.Sub for symbolic instants: d = dsec*1e9 + dnsec, under the
// assumption that neither instant carries a monotonic reading and that the instants are
// less than 2^33 s apart (so the overflow re-check, which divides a symbolic value by 1e9,
// is skipped). Concrete instants use the real function.
func timeSub(fr *frame, a []value) value {
	i := fr.i
	t, u := a[0].(structure), a[1].(structure)
	if !isSym(t[0]) && !isSym(t[1]) && !isSym(u[0]) && !isSym(u[1]) {
		return notHandled{}
	}
	ts := i.ts
	tw, uw := i.term(t[0], types.Uint64), i.term(u[0], types.Uint64)
	te, ue := i.term(t[1], types.Int64), i.term(u[1], types.Int64)
	mono := ts.Const(64, 1<<63)
	noMono := ts.And(ts.Eq(ts.Bin(OpBAnd, tw, mono), ts.Const(64, 0)), ts.Eq(ts.Bin(OpBAnd, uw, mono), ts.Const(64, 0)))
	if !i.branch(noMono) {
		i.abort(abUnsupported, "time.Time.Sub on an instant with a monotonic clock reading")
	}
	dsec := ts.Bin(OpSub, te, ue)
	lim := ts.Const(64, 1<<33)
	i.assume(ts.And(ts.Bin(OpSlt, ts.Un(OpNeg, lim), dsec), ts.Bin(OpSlt, dsec, lim)))
	nmask := ts.Const(64, 1<<30-1)
	dn := ts.Bin(OpSub, ts.Bin(OpBAnd, tw, nmask), ts.Bin(OpBAnd, uw, nmask))
	d := ts.Bin(OpAdd, ts.Bin(OpMul, dsec, ts.Const(64, 1000000000)), dn)
	return i.mkVal(d, types.Int64)
}

// timeNow: a nondeterministic wall clock without monotonic reading: fresh symbolic seconds
// in [0, 2^33) since the Unix epoch and nanoseconds in [0, 1e9).
func timeNow(fr *frame, a []value) value {
	i := fr.i
	ts := i.ts
	if i.w.ex.cfg.TimeFixed {
		// a fixed instant (websocket harnesses: write deadlines never expire)
		pkg := i.prog.ImportedPackage("time")
		loc := i.globals[pkg.Var("localLoc")]
		const u2i = (1969*365 + 1969/4 - 1969/100 + 1969/400) * 86400
		return structure{uint64(0), int64(1700000000 + u2i), loc}
	}
	sec := i.freshEnv(64, types.Int64)
	ns := i.freshEnv(32, types.Uint32)
	i.assume(ts.And(ts.Bin(OpSle, ts.Const(64, 0), sec.t), ts.Bin(OpSlt, sec.t, ts.Const(64, 1<<33))))
	i.assume(ts.Bin(OpUlt, ns.t, ts.Const(32, 1000000000)))
	pkg := i.prog.ImportedPackage("time")
	loc := i.globals[pkg.Var("localLoc")]
	const unixToInternal = (1969*365 + 1969/4 - 1969/100 + 1969/400) * 86400
	ext := ts.Bin(OpAdd, sec.t, ts.Const(64, uint64(unixToInternal)))
	return structure{i.mkVal(ts.ZExt(ns.t, 64), types.Uint64), i.mkVal(ext, types.Int64), loc}
}

// ---------------------------------------------------------------------------------------
// Minimal reflect support (only what rtmp.ExpectPacket uses), answered from go/types.
// reflect.Type values are iface{t: *reflect.rtype, v: rtype{T}}; reflect.Value values are
// structure{rtype{T}, payload, lvalue *value or nil}.

func (i *interpreter) reflectType(t types.Type) value {
	pkg := i.prog.ImportedPackage("reflect")
	rt := pkg.Type("rtype").Object().Type()
	return iface{t: types.NewPointer(rt), v: rtype{t}}
}

func init() {
	externals["reflect.TypeOf"] = func(fr *frame, a []value) value {
		x := a[0].(iface)
		if x.t == nil {
			return iface{}
		}
		return fr.i.reflectType(x.t)
	}
	externals["(*reflect.rtype).Elem"] = func(fr *frame, a []value) value {
		t := a[0].(rtype).t
		switch u := t.Underlying().(type) {
		case *types.Pointer:
			return fr.i.reflectType(u.Elem())
		case *types.Slice:
			return fr.i.reflectType(u.Elem())
		}
		fr.i.abort(abUnsupported, "reflect.Type.Elem on "+t.String())
		return nil
	}
	externals["(*reflect.rtype).Implements"] = func(fr *frame, a []value) value {
		t := a[0].(rtype).t
		u := a[1].(iface).v.(rtype).t
		it, ok := u.Underlying().(*types.Interface)
		if !ok {
			panic(targetPanic{iface{fr.i.runtimeErrorString, "reflect: non-interface type passed to Type.Implements"}})
		}
		return types.Implements(t, it)
	}
	externals["(*reflect.rtype).AssignableTo"] = func(fr *frame, a []value) value {
		t := a[0].(rtype).t
		u := a[1].(iface).v.(rtype).t
		return types.AssignableTo(t, u)
	}
	externals["(*reflect.rtype).ConvertibleTo"] = func(fr *frame, a []value) value {
		t := a[0].(rtype).t
		u := a[1].(iface).v.(rtype).t
		return types.ConvertibleTo(t, u)
	}
	// Value.Convert: conversions that keep the representation (pointer to pointer, identical
	// underlying types) and conversions to an interface type
	externals["(reflect.Value).Convert"] = func(fr *frame, a []value) value {
		src := a[0].(structure)
		st := src[0].(rtype).t
		dt := a[1].(iface).v.(rtype).t
		if !types.ConvertibleTo(st, dt) {
			panic(targetPanic{iface{fr.i.runtimeErrorString, "reflect.Value.Convert: value of type " + st.String() + " cannot be converted to type " + dt.String()}})
		}
		if _, isIface := dt.Underlying().(*types.Interface); isIface {
			if _, srcIface := st.Underlying().(*types.Interface); srcIface {
				return structure{rtype{dt}, src[1], (*value)(nil)}
			}
			return structure{rtype{dt}, iface{t: st, v: src[1]}, (*value)(nil)}
		}
		_, sp := st.Underlying().(*types.Pointer)
		_, dp := dt.Underlying().(*types.Pointer)
		if sp && dp || types.Identical(st.Underlying(), dt.Underlying()) {
			return structure{rtype{dt}, src[1], (*value)(nil)}
		}
		fr.i.abort(abUnsupported, "reflect.Value.Convert from "+st.String()+" to "+dt.String())
		return nil
	}
	externals["(*reflect.rtype).String"] = func(fr *frame, a []value) value { return a[0].(rtype).t.String() }
	externals["reflect.ValueOf"] = func(fr *frame, a []value) value {
		x := a[0].(iface)
		if x.t == nil {
			return structure{rtype{nil}, nil, (*value)(nil)}
		}
		return structure{rtype{x.t}, x.v, (*value)(nil)}
	}
	externals["(reflect.Value).Elem"] = func(fr *frame, a []value) value {
		v := a[0].(structure)
		t := v[0].(rtype).t
		p, ok := t.Underlying().(*types.Pointer)
		if !ok {
			fr.i.abort(abUnsupported, "reflect.Value.Elem on a non-pointer")
		}
		ptr := v[1].(*value)
		if ptr == nil {
			return structure{rtype{nil}, nil, (*value)(nil)}
		}
		return structure{rtype{p.Elem()}, load(p.Elem(), ptr), ptr}
	}
	externals["(reflect.Value).Set"] = func(fr *frame, a []value) value {
		dst, src := a[0].(structure), a[1].(structure)
		lv := dst[2].(*value)
		if lv == nil {
			panic(targetPanic{iface{fr.i.runtimeErrorString, "reflect: reflect.Value.Set using unaddressable value"}})
		}
		dt, st := dst[0].(rtype).t, src[0].(rtype).t
		if !types.AssignableTo(st, dt) {
			panic(targetPanic{iface{fr.i.runtimeErrorString, "reflect.Set: value of type " + st.String() + " is not assignable to type " + dt.String()}})
		}
		if _, isIface := dt.Underlying().(*types.Interface); isIface {
			fr.i.storeAddr(dt, lv, iface{t: st, v: src[1]})
		} else {
			fr.i.storeAddr(dt, lv, src[1])
		}
		return nil
	}
}

// ---------------------------------------------------------------------------------------
// Stubs used by the websocket harnesses.

func structField(t types.Type, name string) int {
	st := t.Underlying().(*types.Struct)
	for k := 0; k < st.NumFields(); k++ {
		if st.Field(k).Name() == name {
			return k
		}
	}
	panic("no field " + name + " in " + t.String())
}

func init() {
	// a timer whose channel is never ready (assumption: the 1000 h / writeWait lock wait never expires)
	externals["time.NewTimer"] = func(fr *frame, a []value) value {
		pkg := fr.i.prog.ImportedPackage("time")
		tt := pkg.Type("Timer").Object().Type()
		var cell value = zero(tt)
		ch := &channel{never: true, capacity: 1, elem: pkg.Type("Time").Object().Type()}
		// a finite duration (below 100 h) with timers enabled: the timer may fire (forked at the select)
		if fr.i.w.ex.cfg.TimersMayFire {
			if d, ok := a[0].(int64); ok && d < int64(100*3600)*1000000000 {
				ch.mayFire = true
			}
		}
		cell.(structure)[structField(tt, "C")] = ch
		return &cell
	}
	// strconv on a symbolic integer: the argument is concretised (forked over its feasible
	// values), then formatted natively
	externals["strconv.Itoa"] = func(fr *frame, a []value) value {
		return strconv.Itoa(int(fr.i.concreteInt(a[0], "strconv.Itoa argument")))
	}
	externals["strconv.FormatInt"] = func(fr *frame, a []value) value {
		return strconv.FormatInt(fr.i.concreteInt(a[0], "strconv.FormatInt argument"), int(fr.i.concreteInt(a[1], "base")))
	}
	externals["strconv.FormatUint"] = func(fr *frame, a []value) value {
		return strconv.FormatUint(uint64(fr.i.concreteInt(a[0], "strconv.FormatUint argument")), int(fr.i.concreteInt(a[1], "base")))
	}
	// crypto/subtle.XORBytes (assembly kernel): dst[i] = x[i] ^ y[i] for i < min(len(x), len(y))
	externals["crypto/subtle.XORBytes"] = func(fr *frame, a []value) value {
		i := fr.i
		dst, x, y := a[0].([]value), a[1].([]value), a[2].([]value)
		n := min(len(x), len(y))
		if n == 0 {
			return 0
		}
		if n > len(dst) {
			panic(targetPanic{iface{i.runtimeErrorString, "subtle.XORBytes: dst too short"}})
		}
		for k := 0; k < n; k++ {
			if isSym(x[k]) || isSym(y[k]) {
				dst[k] = i.mkVal(i.ts.Bin(OpBXor, i.term(x[k], types.Uint8), i.term(y[k], types.Uint8)), types.Uint8)
			} else {
				dst[k] = x[k].(uint8) ^ y[k].(uint8)
			}
		}
		return n
	}
	externals["(*time.Timer).Stop"] = func(fr *frame, a []value) value { return true }
	externals["(*time.Timer).Reset"] = func(fr *frame, a []value) value { return true }
	// the mask key source: unconstrained
	externals["math/rand.Uint32"] = func(fr *frame, a []value) value { return fr.i.freshEnv(32, types.Uint32) }
	externals["math/rand.Int63"] = func(fr *frame, a []value) value {
		s := fr.i.freshEnv(64, types.Int64)
		fr.i.assume(fr.i.ts.Bin(OpSle, fr.i.ts.Const(64, 0), s.t))
		return s
	}
	// sync.Pool: Put keeps the value, Get returns the value put last (what the runtime does for a
	// goroutine that stays on its P) or calls New (or returns nil) when the pool is empty
	externals["(*sync.Pool).Get"] = func(fr *frame, a []value) value {
		if st := fr.i.pools[a[0].(*value)]; len(st) > 0 {
			x := st[len(st)-1]
			fr.i.pools[a[0].(*value)] = st[:len(st)-1]
			return x
		}
		pkg := fr.i.prog.ImportedPackage("sync")
		pt := pkg.Type("Pool").Object().Type()
		p := (*a[0].(*value)).(structure)
		fn := p[structField(pt, "New")]
		switch f := fn.(type) {
		case *ssa.Function:
			if f == nil {
				return iface{}
			}
		case *closure:
			if f == nil {
				return iface{}
			}
		default:
			return iface{}
		}
		return call(fr.i, fr, 0, fn, nil)
	}
	externals["(*sync.Pool).Put"] = func(fr *frame, a []value) value {
		if fr.i.pools == nil {
			fr.i.pools = map[*value][]value{}
		}
		if x, ok := a[1].(iface); ok && x.t == nil {
			return nil // Put(nil) is ignored
		}
		fr.i.pools[a[0].(*value)] = append(fr.i.pools[a[0].(*value)], a[1])
		return nil
	}
	externals["(*sync.Once).Do"] = func(fr *frame, a []value) value {
		o := a[0].(*value)
		m := fr.i.mutex(o)
		fr.i.yield("once", m)
		if !m.locked { // reuse the mutex record's flag as the done flag
			m.locked = true
			call(fr.i, fr, 0, a[1], nil)
			fr.i.release(&m.vc)
		} else {
			fr.i.acquire(&m.vc)
		}
		return nil
	}
	// websocket.maskBytes is interpreted from source (its word-at-a-time loop runs on the unsafe
	// pointer model of unsafeptr.go) for buffers below 64 bytes and always in HarnessC13_Mask; for
	// longer buffers it is summarised by the byte-wise definition, which HarnessC13_Mask shows
	// equivalent to the real implementation for all contents, keys, positions and alignments up
	// to its length bound.
	externals[repoModule+"/websocket.maskBytes"] = func(fr *frame, a []value) value {
		b := a[2].([]value)
		if len(b) < 64 || fr.i.w.ex.cfg.SymAddr {
			return notHandled{}
		}
		i := fr.i
		key := a[0].(array)
		pos := int(i.concreteInt(a[1], "maskBytes pos"))
		for k := range b {
			kb := key[pos&3]
			if isSym(b[k]) || isSym(kb) {
				b[k] = i.mkVal(i.ts.Bin(OpBXor, i.term(b[k], types.Uint8), i.term(kb, types.Uint8)), types.Uint8)
			} else {
				b[k] = b[k].(uint8) ^ kb.(uint8)
			}
			pos++
		}
		return pos & 3
	}
}
