// Symbolic scalar operations: construction of width-exact bit-vector terms with Go semantics.
package main

import (
	"fmt"
	"go/token"
	"go/types"
	"math"
)

func isSym(v value) bool {
	_, ok := v.(*sym)
	return ok
}

func kindWidth(k types.BasicKind) uint8 {
	switch k {
	case types.Bool, types.UntypedBool:
		return 0
	case types.Int8, types.Uint8:
		return 8
	case types.Int16, types.Uint16:
		return 16
	case types.Int32, types.Uint32:
		return 32
	case types.Int, types.Int64, types.Uint, types.Uint64, types.Uintptr, types.Float64, types.UntypedInt, types.UntypedFloat:
		return 64
	}
	panic(fmt.Sprintf("kindWidth: unsupported kind %d", k))
}

func kindSigned(k types.BasicKind) bool {
	switch k {
	case types.Int, types.Int8, types.Int16, types.Int32, types.Int64, types.UntypedInt:
		return true
	}
	return false
}

func basicKind(t types.Type) types.BasicKind {
	if b, ok := t.Underlying().(*types.Basic); ok {
		k := b.Kind()
		switch k {
		case types.UntypedBool:
			return types.Bool
		case types.UntypedInt:
			return types.Int
		case types.UntypedRune:
			return types.Int32
		case types.UntypedFloat:
			return types.Float64
		}
		return k
	}
	return types.Invalid
}

func valueKind(v value) types.BasicKind {
	switch v := v.(type) {
	case *sym:
		return v.k
	case bool:
		return types.Bool
	case int:
		return types.Int
	case int8:
		return types.Int8
	case int16:
		return types.Int16
	case int32:
		return types.Int32
	case int64:
		return types.Int64
	case uint:
		return types.Uint
	case uint8:
		return types.Uint8
	case uint16:
		return types.Uint16
	case uint32:
		return types.Uint32
	case uint64:
		return types.Uint64
	case uintptr:
		return types.Uintptr
	case float64:
		return types.Float64
	}
	return types.Invalid
}

func kindOfValue(x, y value) types.BasicKind {
	if s, ok := x.(*sym); ok {
		return s.k
	}
	if s, ok := y.(*sym); ok {
		return s.k
	}
	return valueKind(x)
}

// bitsOf returns the bit pattern of a concrete scalar.
func bitsOf(v value) (uint64, bool) {
	switch v := v.(type) {
	case bool:
		return b2u(v), true
	case int:
		return uint64(v), true
	case int8:
		return uint64(v), true
	case int16:
		return uint64(v), true
	case int32:
		return uint64(v), true
	case int64:
		return uint64(v), true
	case uint:
		return uint64(v), true
	case uint8:
		return uint64(v), true
	case uint16:
		return uint64(v), true
	case uint32:
		return uint64(v), true
	case uint64:
		return v, true
	case uintptr:
		return uint64(v), true
	case float64:
		return math.Float64bits(v), true
	}
	return 0, false
}

// fromBits builds the concrete Go value of kind k with bit pattern b.
func fromBits(k types.BasicKind, b uint64) value {
	switch k {
	case types.Bool:
		return b != 0
	case types.Int:
		return int(b)
	case types.Int8:
		return int8(b)
	case types.Int16:
		return int16(b)
	case types.Int32:
		return int32(b)
	case types.Int64:
		return int64(b)
	case types.Uint:
		return uint(b)
	case types.Uint8:
		return uint8(b)
	case types.Uint16:
		return uint16(b)
	case types.Uint32:
		return uint32(b)
	case types.Uint64:
		return b
	case types.Uintptr:
		return uintptr(b)
	case types.Float64:
		return math.Float64frombits(b)
	}
	panic(fmt.Sprintf("fromBits: kind %d", k))
}

// term converts a scalar value (symbolic or concrete) of kind k to a term.
func (i *interpreter) term(v value, k types.BasicKind) *Term {
	if s, ok := v.(*sym); ok {
		return s.t
	}
	b, ok := bitsOf(v)
	if !ok {
		if _, isP := v.(poison); isP {
			i.abort(abUnsupported, "use of a value from an unexecuted initialiser")
		}
		panic(fmt.Sprintf("term: not a scalar: %T", v))
	}
	return i.ts.Const(kindWidth(k), b)
}

// mkVal wraps a term as a value of kind k; constants become concrete Go values.
func (i *interpreter) mkVal(t *Term, k types.BasicKind) value {
	if t.IsConst() {
		return fromBits(k, t.val)
	}
	return &sym{t, k}
}

func (i *interpreter) mkBool(t *Term) value { return i.mkVal(t, types.Bool) }

func (i *interpreter) and(x, y value) value {
	if xb, ok := x.(bool); ok {
		if !xb {
			return false
		}
		return y
	}
	if yb, ok := y.(bool); ok {
		if !yb {
			return false
		}
		return x
	}
	return i.mkBool(i.ts.And(x.(*sym).t, y.(*sym).t))
}

func (i *interpreter) or(x, y value) value {
	if xb, ok := x.(bool); ok {
		if xb {
			return true
		}
		return y
	}
	if yb, ok := y.(bool); ok {
		if yb {
			return true
		}
		return x
	}
	return i.mkBool(i.ts.Or(x.(*sym).t, y.(*sym).t))
}

func (i *interpreter) not(x value) value {
	if xb, ok := x.(bool); ok {
		return !xb
	}
	return i.mkBool(i.ts.Not(x.(*sym).t))
}

// truth turns a bool value into a Go bool, forking the path when it is symbolic.
func (i *interpreter) truth(v value) bool {
	switch v := v.(type) {
	case bool:
		return v
	case *sym:
		return i.branch(v.t)
	case poison:
		i.abort(abUnsupported, "branch on a value from an unexecuted initialiser: "+v.why)
	}
	panic(fmt.Sprintf("truth: %T", v))
}

// concreteInt returns the int64 value of an integer, concretising (forking over the
// feasible values) when it is symbolic.
func (i *interpreter) concreteInt(v value, what string) int64 {
	if s, ok := v.(*sym); ok {
		b := i.concretize(s.t, what)
		if kindSigned(s.k) {
			return sext(b, kindWidth(s.k))
		}
		return int64(b)
	}
	return asInt64(v)
}

// indexCheck validates idx against length n (forking on the bounds check when symbolic)
// and returns a concrete index.
func (i *interpreter) indexCheck(idx value, n int) int {
	if s, ok := idx.(*sym); ok {
		if !i.branch(i.inBounds(s, n)) {
			panic(runtimeError(fmt.Sprintf("index out of range [symbolic] with length %d", n)))
		}
		return int(i.concretize(s.t, "index in "+i.where()))
	}
	k := asInt64(idx)
	if k < 0 || k >= int64(n) {
		panic(runtimeError(fmt.Sprintf("index out of range [%d] with length %d", k, n)))
	}
	return int(k)
}

// inBounds builds 0 <= s < n, comparing in 64 bits so that n may exceed the index type's range.
func (i *interpreter) inBounds(s *sym, n int) *Term {
	ts := i.ts
	var x *Term
	if kindSigned(s.k) {
		x = ts.SExt(s.t, 64)
		return ts.And(ts.Bin(OpSle, ts.Const(64, 0), x), ts.Bin(OpSlt, x, ts.Const(64, uint64(n))))
	}
	x = ts.ZExt(s.t, 64)
	return ts.Bin(OpUlt, x, ts.Const(64, uint64(n)))
}

// symAddr is the address of cells[idx] for a symbolic idx into scalar cells (bounds already
// decided). Loads become ite chains, stores ite updates of every cell.
type symAddr struct {
	cells []value
	idx   *sym
	k     types.BasicKind
}

// scalarCells reports whether all cells are scalars of one kind (and few enough for a chain).
func scalarCells(cells []value) (types.BasicKind, bool) {
	n := len(cells)
	if n == 0 || n > 1024 {
		return types.Invalid, false
	}
	k := valueKind(cells[0])
	if k == types.Invalid {
		return k, false
	}
	for _, c := range cells {
		if valueKind(c) != k {
			return k, false
		}
	}
	return k, true
}

// indexAddr returns &cells[idx]: a real pointer, or a symAddr for a symbolic index into
// scalar cells.
func (i *interpreter) indexAddr(cells []value, idx value) value {
	s, ok := idx.(*sym)
	if !ok {
		return &cells[i.indexCheck(idx, len(cells))]
	}
	k, scalar := scalarCells(cells)
	if !scalar {
		return &cells[i.indexCheck(idx, len(cells))]
	}
	if !i.branch(i.inBounds(s, len(cells))) {
		panic(runtimeError(fmt.Sprintf("index out of range [symbolic] with length %d", len(cells))))
	}
	return &symAddr{cells: cells, idx: s, k: k}
}

func (i *interpreter) loadSymAddr(a *symAddr) value {
	n := len(a.cells)
	w := kindWidth(a.idx.k)
	acc := i.term(a.cells[n-1], a.k)
	for j := n - 2; j >= 0; j-- {
		acc = i.ts.Ite(i.ts.Eq(a.idx.t, i.ts.Const(w, uint64(j))), i.term(a.cells[j], a.k), acc)
	}
	return i.mkVal(acc, a.k)
}

func (i *interpreter) storeSymAddr(a *symAddr, v value) {
	w := kindWidth(a.idx.k)
	vt := i.term(v, a.k)
	for j := range a.cells {
		c := i.ts.Eq(a.idx.t, i.ts.Const(w, uint64(j)))
		a.cells[j] = i.mkVal(i.ts.Ite(c, vt, i.term(a.cells[j], a.k)), a.k)
	}
}

// indexScalar reads cells[idx]. A symbolic index into scalar cells becomes an ite chain
// (after the bounds decision) instead of a fork per value.
func (i *interpreter) indexScalar(cells []value, idx value) value {
	s, ok := idx.(*sym)
	if !ok {
		return cells[i.indexCheck(idx, len(cells))]
	}
	n := len(cells)
	scalar := n > 0 && n <= 1024
	var k types.BasicKind
	if scalar {
		k = valueKind(cells[0])
		if k == types.Invalid {
			scalar = false
		}
		for _, c := range cells {
			if valueKind(c) != k {
				scalar = false
				break
			}
		}
	}
	if !scalar {
		return cells[i.indexCheck(idx, n)]
	}
	w := kindWidth(s.k)
	if !i.branch(i.inBounds(s, n)) {
		panic(runtimeError(fmt.Sprintf("index out of range [symbolic] with length %d", n)))
	}
	acc := i.term(cells[n-1], k)
	for j := n - 2; j >= 0; j-- {
		acc = i.ts.Ite(i.ts.Eq(s.t, i.ts.Const(w, uint64(j))), i.term(cells[j], k), acc)
	}
	return i.mkVal(acc, k)
}

var binopMap = map[token.Token]Op{
	token.ADD: OpAdd, token.SUB: OpSub, token.MUL: OpMul,
	token.AND: OpBAnd, token.OR: OpBOr, token.XOR: OpBXor,
}

// symBinop implements binary operators when at least one operand is symbolic.
func (i *interpreter) symBinop(op token.Token, t, yt types.Type, x, y value) value {
	ts := i.ts
	k := basicKind(t)
	if k == types.Invalid {
		k = kindOfValue(x, y)
	}
	if k == types.Float32 || k == types.Complex64 || k == types.Complex128 {
		i.abort(abUnsupported, "symbolic float32/complex arithmetic")
	}
	switch op {
	case token.SHL, token.SHR:
		return i.symShift(op, k, basicKind(yt), x, y)
	}
	w := kindWidth(k)
	a, b := i.term(x, k), i.term(y, k)
	if k == types.Bool {
		switch op {
		case token.EQL:
			return i.mkBool(ts.Eq(a, b))
		case token.NEQ:
			return i.mkBool(ts.Not(ts.Eq(a, b)))
		case token.AND, token.LAND:
			return i.mkBool(ts.And(a, b))
		case token.OR, token.LOR:
			return i.mkBool(ts.Or(a, b))
		}
		panic("symBinop: bool op " + op.String())
	}
	if k == types.Float64 {
		switch op {
		case token.ADD:
			return i.mkVal(ts.Bin(OpFAdd, a, b), k)
		case token.SUB:
			return i.mkVal(ts.Bin(OpFSub, a, b), k)
		case token.MUL:
			return i.mkVal(ts.Bin(OpFMul, a, b), k)
		case token.QUO:
			return i.mkVal(ts.Bin(OpFDiv, a, b), k)
		case token.EQL:
			return i.mkBool(ts.Bin(OpFEq, a, b))
		case token.NEQ:
			return i.mkBool(ts.Not(ts.Bin(OpFEq, a, b)))
		case token.LSS:
			return i.mkBool(ts.Bin(OpFLt, a, b))
		case token.LEQ:
			return i.mkBool(ts.Bin(OpFLe, a, b))
		case token.GTR:
			return i.mkBool(ts.Bin(OpFLt, b, a))
		case token.GEQ:
			return i.mkBool(ts.Bin(OpFLe, b, a))
		}
		panic("symBinop: float op " + op.String())
	}
	signed := kindSigned(k)
	switch op {
	case token.ADD, token.SUB, token.MUL, token.AND, token.OR, token.XOR:
		return i.mkVal(ts.Bin(binopMap[op], a, b), k)
	case token.AND_NOT:
		return i.mkVal(ts.Bin(OpBAnd, a, ts.Un(OpBNot, b)), k)
	case token.QUO, token.REM:
		if !i.branch(ts.Not(ts.Eq(b, ts.Const(w, 0)))) {
			panic(runtimeError("integer divide by zero"))
		}
		var o Op
		switch {
		case op == token.QUO && signed:
			o = OpSDiv
		case op == token.QUO:
			o = OpUDiv
		case signed:
			o = OpSRem
		default:
			o = OpURem
		}
		return i.mkVal(ts.Bin(o, a, b), k)
	case token.EQL:
		return i.mkBool(ts.Eq(a, b))
	case token.NEQ:
		return i.mkBool(ts.Not(ts.Eq(a, b)))
	case token.LSS:
		if signed {
			return i.mkBool(ts.Bin(OpSlt, a, b))
		}
		return i.mkBool(ts.Bin(OpUlt, a, b))
	case token.LEQ:
		if signed {
			return i.mkBool(ts.Bin(OpSle, a, b))
		}
		return i.mkBool(ts.Bin(OpUle, a, b))
	case token.GTR:
		if signed {
			return i.mkBool(ts.Bin(OpSlt, b, a))
		}
		return i.mkBool(ts.Bin(OpUlt, b, a))
	case token.GEQ:
		if signed {
			return i.mkBool(ts.Bin(OpSle, b, a))
		}
		return i.mkBool(ts.Bin(OpUle, b, a))
	}
	panic("symBinop: unsupported op " + op.String())
}

func (i *interpreter) symShift(op token.Token, k, yk types.BasicKind, x, y value) value {
	ts := i.ts
	w := kindWidth(k)
	a := i.term(x, k)
	if yk == types.Invalid {
		yk = valueKind(y)
	}
	yw := kindWidth(yk)
	b := i.term(y, yk)
	if kindSigned(yk) {
		if !i.branch(ts.Bin(OpSle, ts.Const(yw, 0), b)) {
			panic(runtimeError("negative shift amount"))
		}
	}
	// big := b >= w (unsigned compare in b's width)
	big := ts.Not(ts.Bin(OpUlt, b, ts.Const(yw, uint64(w))))
	var bb *Term
	if yw >= w {
		bb = ts.Extract(b, w-1, 0)
	} else {
		bb = ts.ZExt(b, w)
	}
	var r *Term
	switch {
	case op == token.SHL:
		r = ts.Ite(big, ts.Const(w, 0), ts.Bin(OpShl, a, bb))
	case kindSigned(k):
		r = ts.Ite(big, ts.Bin(OpAShr, a, ts.Const(w, uint64(w-1))), ts.Bin(OpAShr, a, bb))
	default:
		r = ts.Ite(big, ts.Const(w, 0), ts.Bin(OpLShr, a, bb))
	}
	return i.mkVal(r, k)
}

func (i *interpreter) symUnop(op token.Token, x *sym) value {
	ts := i.ts
	switch op {
	case token.SUB:
		if x.k == types.Float64 {
			return i.mkVal(ts.Un(OpFNeg, x.t), x.k)
		}
		return i.mkVal(ts.Un(OpNeg, x.t), x.k)
	case token.NOT:
		return i.mkBool(ts.Not(x.t))
	case token.XOR:
		return i.mkVal(ts.Un(OpBNot, x.t), x.k)
	}
	panic("symUnop: " + op.String())
}

// symConv converts a symbolic scalar between basic kinds.
func (i *interpreter) symConv(dst types.BasicKind, x *sym) value {
	ts := i.ts
	src := x.k
	if dst == src {
		return x
	}
	if dst == types.String {
		i.abort(abUnsupported, "string(symbolic integer)")
	}
	if dst == types.Float32 || src == types.Float32 {
		i.abort(abUnsupported, "symbolic float32 conversion")
	}
	dw := kindWidth(dst)
	switch {
	case src == types.Float64:
		// float -> int. Out-of-range results are implementation-specific in Go: the path is
		// only continued inside the range where the result is defined.
		lo, hi := math.Float64bits(-math.Ldexp(1, int(dw)-1)), math.Float64bits(math.Ldexp(1, int(dw)-1))
		if !kindSigned(dst) {
			lo, hi = math.Float64bits(-1), math.Float64bits(math.Ldexp(1, int(dw)))
			inr := ts.And(ts.Bin(OpFLt, ts.Const(64, lo), x.t), ts.Bin(OpFLt, x.t, ts.Const(64, hi)))
			if !i.branch(inr) {
				i.abort(abUnsupported, "float64->unsigned conversion out of range (implementation-defined)")
			}
			return i.mkVal(ts.Conv(OpFToU, x.t, dw), dst)
		}
		inr := ts.And(ts.Bin(OpFLe, ts.Const(64, lo), x.t), ts.Bin(OpFLt, x.t, ts.Const(64, hi)))
		if !i.branch(inr) {
			i.abort(abUnsupported, "float64->int conversion out of range (implementation-defined)")
		}
		return i.mkVal(ts.Conv(OpFToS, x.t, dw), dst)
	case dst == types.Float64:
		if kindSigned(src) {
			return i.mkVal(ts.Conv(OpSToF, x.t, 64), dst)
		}
		return i.mkVal(ts.Conv(OpUToF, x.t, 64), dst)
	}
	sw := kindWidth(src)
	var r *Term
	switch {
	case dw <= sw:
		r = ts.Extract(x.t, dw-1, 0)
	case kindSigned(src):
		r = ts.SExt(x.t, dw)
	default:
		r = ts.ZExt(x.t, dw)
	}
	return i.mkVal(r, dst)
}

// ------------------------------------------------------------------------
// Strings with symbolic bytes

func strBytes(v value) []value {
	switch s := v.(type) {
	case string:
		b := make([]value, len(s))
		for k := 0; k < len(s); k++ {
			b[k] = s[k]
		}
		return b
	case sstr:
		return s.b
	}
	panic(fmt.Sprintf("strBytes: %T", v))
}

// mkStr builds a string value from bytes; all-concrete bytes give a Go string.
func mkStr(b []value) value {
	conc := true
	for _, c := range b {
		if _, ok := c.(uint8); !ok {
			conc = false
			break
		}
	}
	if conc {
		bs := make([]byte, len(b))
		for k, c := range b {
			bs[k] = c.(uint8)
		}
		return string(bs)
	}
	cp := make([]value, len(b))
	copy(cp, b)
	return sstr{cp}
}

func strLen(i *interpreter, v value) int {
	switch s := v.(type) {
	case string:
		return len(s)
	case sstr:
		return len(s.b)
	case opaqueStr:
		i.abort(abUnsupported, "len of an opaque (formatted) string")
	}
	panic(fmt.Sprintf("strLen: %T", v))
}

func strEq(i *interpreter, x, y value) value {
	if _, ok := y.(opaqueStr); ok {
		i.abort(abUnsupported, "comparison of an opaque (formatted) string")
	}
	xb, yb := strBytes(x), strBytes(y)
	if len(xb) != len(yb) {
		return false
	}
	var acc value = true
	for k := range xb {
		acc = i.and(acc, equalsV(i, types.Typ[types.Uint8], xb[k], yb[k]))
		if acc == false {
			return false
		}
	}
	return acc
}

// strLess implements x < y on strings with symbolic bytes (lexicographic).
func strLess(i *interpreter, x, y value) value {
	xb, yb := strBytes(x), strBytes(y)
	n := len(xb)
	if len(yb) < n {
		n = len(yb)
	}
	// result = OR_k (prefix equal up to k AND x[k] < y[k]) OR (all n equal AND len(x) < len(y))
	var res value = false
	var eq value = true
	u8 := types.Typ[types.Uint8]
	for k := 0; k < n; k++ {
		var lt value
		if isSym(xb[k]) || isSym(yb[k]) {
			lt = i.mkBool(i.ts.Bin(OpUlt, i.term(xb[k], types.Uint8), i.term(yb[k], types.Uint8)))
		} else {
			lt = xb[k].(uint8) < yb[k].(uint8)
		}
		res = i.or(res, i.and(eq, lt))
		eq = i.and(eq, equalsV(i, u8, xb[k], yb[k]))
		if eq == false {
			return res
		}
	}
	if len(xb) < len(yb) {
		res = i.or(res, eq)
	}
	return res
}
