// Hash-consed SMT term DAG with local simplification, a Go-side evaluator and an
// SMT-LIB2 serialiser. Sorts: Bool (w==0) and bit-vectors of width 1..64.
// float64 values are carried as their 64 IEEE bits (a BV64 term); FP operations take and
// return bit patterns and are encoded in the FP theory at serialisation time.
package main

import (
	"fmt"
	"math"
	"math/bits"
	"strings"
)

type Op uint8

const (
	OpConst Op = iota
	OpVar
	OpNot
	OpAnd
	OpOr
	OpIte
	OpEq
	OpUlt
	OpUle
	OpSlt
	OpSle
	OpAdd
	OpSub
	OpMul
	OpUDiv
	OpURem
	OpSDiv
	OpSRem
	OpBAnd
	OpBOr
	OpBXor
	OpBNot
	OpNeg
	OpShl
	OpLShr
	OpAShr
	OpConcat
	OpExtract // val = hi<<8 | lo
	OpZExt
	OpSExt
	// floating point (float64 as 64 bits)
	OpFAdd
	OpFSub
	OpFMul
	OpFDiv
	OpFNeg
	OpFEq
	OpFLt
	OpFLe
	OpFIsNaN
	OpSToF // signed int (any width) -> float64 bits
	OpUToF
	OpFToS // float64 bits -> signed int of width w (RTZ); out of range unspecified
	OpFToU
)

var opNames = map[Op]string{
	OpNot: "not", OpAnd: "and", OpOr: "or", OpIte: "ite", OpEq: "=",
	OpUlt: "bvult", OpUle: "bvule", OpSlt: "bvslt", OpSle: "bvsle",
	OpAdd: "bvadd", OpSub: "bvsub", OpMul: "bvmul", OpUDiv: "bvudiv", OpURem: "bvurem",
	OpSDiv: "bvsdiv", OpSRem: "bvsrem", OpBAnd: "bvand", OpBOr: "bvor", OpBXor: "bvxor",
	OpBNot: "bvnot", OpNeg: "bvneg", OpShl: "bvshl", OpLShr: "bvlshr", OpAShr: "bvashr",
	OpConcat: "concat",
}

type Term struct {
	op   Op
	w    uint8 // 0 = Bool
	val  uint64
	name string
	a    [3]*Term
	id   int
	// evaluation cache
	evGen int
	evVal uint64
	// serialisation: index of the solver session this term was defined in
	defIn   [3]int
	hasFP   bool // cone contains an FP-valued op that needs an aux constraint
	size    int
}

type termKey struct {
	op         Op
	w          uint8
	val        uint64
	name       string
	a0, a1, a2 int
}

type TermStore struct {
	tab   map[termKey]*Term
	next  int
	True  *Term
	False *Term
	gen   int // evaluation generation
}

func NewTermStore() *TermStore {
	ts := &TermStore{tab: make(map[termKey]*Term)}
	ts.True = ts.mk(OpConst, 0, 1, "", nil, nil, nil)
	ts.False = ts.mk(OpConst, 0, 0, "", nil, nil, nil)
	return ts
}

func tid(t *Term) int {
	if t == nil {
		return -1
	}
	return t.id
}

func (ts *TermStore) mk(op Op, w uint8, val uint64, name string, a0, a1, a2 *Term) *Term {
	k := termKey{op, w, val, name, tid(a0), tid(a1), tid(a2)}
	if t, ok := ts.tab[k]; ok {
		return t
	}
	t := &Term{op: op, w: w, val: val, name: name, a: [3]*Term{a0, a1, a2}, id: ts.next, defIn: [3]int{-1, -1, -1}, size: 1}
	for _, x := range t.a {
		if x != nil {
			t.size += x.size
			if x.hasFP {
				t.hasFP = true
			}
		}
	}
	if t.size > 1<<30 {
		t.size = 1 << 30
	}
	switch op {
	case OpFAdd, OpFSub, OpFMul, OpFDiv, OpSToF, OpUToF:
		t.hasFP = true
	}
	ts.next++
	ts.tab[k] = t
	return t
}

func mask(w uint8) uint64 {
	if w >= 64 {
		return ^uint64(0)
	}
	return (uint64(1) << w) - 1
}

func sext(v uint64, w uint8) int64 {
	if w >= 64 {
		return int64(v)
	}
	s := 64 - uint(w)
	return int64(v<<s) >> s
}

func (t *Term) IsConst() bool { return t.op == OpConst }
func (t *Term) IsBool() bool  { return t.w == 0 }

func (ts *TermStore) Const(w uint8, v uint64) *Term {
	if w == 0 {
		if v != 0 {
			return ts.True
		}
		return ts.False
	}
	return ts.mk(OpConst, w, v&mask(w), "", nil, nil, nil)
}

func (ts *TermStore) Bool(b bool) *Term {
	if b {
		return ts.True
	}
	return ts.False
}

func (ts *TermStore) Var(name string, w uint8) *Term {
	return ts.mk(OpVar, w, 0, name, nil, nil, nil)
}

func (ts *TermStore) Not(a *Term) *Term {
	if a.IsConst() {
		return ts.Bool(a.val == 0)
	}
	if a.op == OpNot {
		return a.a[0]
	}
	return ts.mk(OpNot, 0, 0, "", a, nil, nil)
}

func (ts *TermStore) And(a, b *Term) *Term {
	if a.IsConst() {
		if a.val == 0 {
			return ts.False
		}
		return b
	}
	if b.IsConst() {
		if b.val == 0 {
			return ts.False
		}
		return a
	}
	if a == b {
		return a
	}
	return ts.mk(OpAnd, 0, 0, "", a, b, nil)
}

func (ts *TermStore) Or(a, b *Term) *Term {
	if a.IsConst() {
		if a.val != 0 {
			return ts.True
		}
		return b
	}
	if b.IsConst() {
		if b.val != 0 {
			return ts.True
		}
		return a
	}
	if a == b {
		return a
	}
	return ts.mk(OpOr, 0, 0, "", a, b, nil)
}

func (ts *TermStore) Ite(c, a, b *Term) *Term {
	if c.IsConst() {
		if c.val != 0 {
			return a
		}
		return b
	}
	if a == b {
		return a
	}
	if a.w == 0 && a.IsConst() && b.IsConst() {
		if a.val != 0 {
			return c
		}
		return ts.Not(c)
	}
	return ts.mk(OpIte, a.w, 0, "", c, a, b)
}

func (ts *TermStore) Eq(a, b *Term) *Term {
	if a.w != b.w {
		panic(fmt.Sprintf("Eq width mismatch %d %d", a.w, b.w))
	}
	if a == b {
		return ts.True
	}
	if a.IsConst() && b.IsConst() {
		return ts.Bool(a.val == b.val)
	}
	if a.w == 0 {
		if a.IsConst() {
			if a.val != 0 {
				return b
			}
			return ts.Not(b)
		}
		if b.IsConst() {
			if b.val != 0 {
				return a
			}
			return ts.Not(a)
		}
	}
	if a.id > b.id {
		a, b = b, a
	}
	return ts.mk(OpEq, 0, 0, "", a, b, nil)
}

func evalBin(op Op, w uint8, x, y uint64) uint64 {
	m := mask(w)
	switch op {
	case OpAdd:
		return (x + y) & m
	case OpSub:
		return (x - y) & m
	case OpMul:
		return (x * y) & m
	case OpUDiv:
		if y == 0 {
			return m
		}
		return x / y
	case OpURem:
		if y == 0 {
			return x
		}
		return x % y
	case OpSDiv:
		sx, sy := sext(x, w), sext(y, w)
		if sy == 0 {
			if sx < 0 {
				return 1
			}
			return m
		}
		if sy == -1 {
			return uint64(-sx) & m
		}
		return uint64(sx/sy) & m
	case OpSRem:
		sx, sy := sext(x, w), sext(y, w)
		if sy == 0 {
			return x
		}
		if sy == -1 {
			return 0
		}
		return uint64(sx%sy) & m
	case OpBAnd:
		return x & y
	case OpBOr:
		return x | y
	case OpBXor:
		return x ^ y
	case OpShl:
		if y >= uint64(w) {
			return 0
		}
		return (x << y) & m
	case OpLShr:
		if y >= uint64(w) {
			return 0
		}
		return x >> y
	case OpAShr:
		sx := sext(x, w)
		if y >= uint64(w) {
			y = uint64(w) - 1
		}
		return uint64(sx>>y) & m
	case OpUlt:
		return b2u(x < y)
	case OpUle:
		return b2u(x <= y)
	case OpSlt:
		return b2u(sext(x, w) < sext(y, w))
	case OpSle:
		return b2u(sext(x, w) <= sext(y, w))
	case OpFAdd:
		return canonNaN(math.Float64bits(math.Float64frombits(x) + math.Float64frombits(y)))
	case OpFSub:
		return canonNaN(math.Float64bits(math.Float64frombits(x) - math.Float64frombits(y)))
	case OpFMul:
		return canonNaN(math.Float64bits(math.Float64frombits(x) * math.Float64frombits(y)))
	case OpFDiv:
		return canonNaN(math.Float64bits(math.Float64frombits(x) / math.Float64frombits(y)))
	case OpFEq:
		return b2u(math.Float64frombits(x) == math.Float64frombits(y))
	case OpFLt:
		return b2u(math.Float64frombits(x) < math.Float64frombits(y))
	case OpFLe:
		return b2u(math.Float64frombits(x) <= math.Float64frombits(y))
	}
	panic(fmt.Sprintf("evalBin: op %d", op))
}

const canonicalNaN = 0x7FF8000000000001

func canonNaN(b uint64) uint64 {
	f := math.Float64frombits(b)
	if f != f {
		return canonicalNaN
	}
	return b
}

func b2u(b bool) uint64 {
	if b {
		return 1
	}
	return 0
}

// Bin builds a binary bit-vector operation (result width = operand width) or comparison.
func (ts *TermStore) Bin(op Op, a, b *Term) *Term {
	if a.w != b.w {
		panic(fmt.Sprintf("Bin %s width mismatch %d %d", opNames[op], a.w, b.w))
	}
	rw := a.w
	switch op {
	case OpUlt, OpUle, OpSlt, OpSle, OpFEq, OpFLt, OpFLe:
		rw = 0
	}
	if a.IsConst() && b.IsConst() {
		return ts.Const(rw, evalBin(op, a.w, a.val, b.val))
	}
	m := mask(a.w)
	switch op {
	case OpAdd:
		if a.IsConst() && a.val == 0 {
			return b
		}
		if b.IsConst() && b.val == 0 {
			return a
		}
	case OpSub:
		if b.IsConst() && b.val == 0 {
			return a
		}
		if a == b {
			return ts.Const(rw, 0)
		}
	case OpMul:
		if a.IsConst() && a.val == 0 || b.IsConst() && b.val == 0 {
			return ts.Const(rw, 0)
		}
		if a.IsConst() && a.val == 1 {
			return b
		}
		if b.IsConst() && b.val == 1 {
			return a
		}
	case OpBAnd:
		if a.IsConst() && a.val == 0 || b.IsConst() && b.val == 0 {
			return ts.Const(rw, 0)
		}
		if a.IsConst() && a.val == m {
			return b
		}
		if b.IsConst() && b.val == m {
			return a
		}
		if a == b {
			return a
		}
	case OpBOr:
		if a.IsConst() && a.val == 0 {
			return b
		}
		if b.IsConst() && b.val == 0 {
			return a
		}
		if a.IsConst() && a.val == m || b.IsConst() && b.val == m {
			return ts.Const(rw, m)
		}
		if a == b {
			return a
		}
		// (zext x) << k | zext y patterns are left to the solver
	case OpBXor:
		if a.IsConst() && a.val == 0 {
			return b
		}
		if b.IsConst() && b.val == 0 {
			return a
		}
		if a == b {
			return ts.Const(rw, 0)
		}
		// x ^ k ^ k
		if b.IsConst() && a.op == OpBXor && a.a[1].IsConst() {
			return ts.Bin(OpBXor, a.a[0], ts.Const(a.w, a.a[1].val^b.val))
		}
		if a.op == OpBXor && a.a[1] == b {
			return a.a[0]
		}
		if a.op == OpBXor && a.a[0] == b {
			return a.a[1]
		}
	case OpShl, OpLShr:
		if b.IsConst() {
			if b.val == 0 {
				return a
			}
			if b.val >= uint64(a.w) {
				return ts.Const(rw, 0)
			}
		}
		if a.IsConst() && a.val == 0 {
			return a
		}
	case OpAShr:
		if b.IsConst() && b.val == 0 {
			return a
		}
	case OpUlt:
		if a == b {
			return ts.False
		}
		if b.IsConst() && b.val == 0 {
			return ts.False
		}
	case OpUle:
		if a == b {
			return ts.True
		}
		if a.IsConst() && a.val == 0 {
			return ts.True
		}
		if b.IsConst() && b.val == m {
			return ts.True
		}
	case OpSlt:
		if a == b {
			return ts.False
		}
	case OpSle:
		if a == b {
			return ts.True
		}
	}
	// range-based simplification of unsigned comparisons against zero-extended operands
	if (op == OpUlt || op == OpUle) && b.IsConst() {
		if hi, ok := ts.umax(a); ok {
			if op == OpUlt && hi < b.val || op == OpUle && hi <= b.val {
				return ts.True
			}
		}
	}
	return ts.mk(op, rw, 0, "", a, b, nil)
}

// umax gives a cheap syntactic upper bound of an unsigned term.
func (ts *TermStore) umax(a *Term) (uint64, bool) {
	switch a.op {
	case OpConst:
		return a.val, true
	case OpZExt:
		return mask(a.a[0].w), true
	case OpBAnd:
		if a.a[1].IsConst() {
			return a.a[1].val, true
		}
		if a.a[0].IsConst() {
			return a.a[0].val, true
		}
	case OpLShr:
		if a.a[1].IsConst() && a.a[1].val < uint64(a.w) {
			return mask(a.w) >> a.a[1].val, true
		}
	}
	return 0, false
}

func (ts *TermStore) Un(op Op, a *Term) *Term {
	if a.IsConst() {
		switch op {
		case OpBNot:
			return ts.Const(a.w, ^a.val)
		case OpNeg:
			return ts.Const(a.w, -a.val)
		case OpFNeg:
			return ts.Const(a.w, a.val^(1<<63))
		case OpFIsNaN:
			f := math.Float64frombits(a.val)
			return ts.Bool(f != f)
		}
	}
	if op == OpBNot && a.op == OpBNot {
		return a.a[0]
	}
	rw := a.w
	if op == OpFIsNaN {
		rw = 0
	}
	return ts.mk(op, rw, 0, "", a, nil, nil)
}

func (ts *TermStore) Extract(a *Term, hi, lo uint8) *Term {
	w := hi - lo + 1
	if w == a.w {
		return a
	}
	if a.IsConst() {
		return ts.Const(w, a.val>>lo)
	}
	switch a.op {
	case OpConcat:
		lw := a.a[1].w
		if hi < lw {
			return ts.Extract(a.a[1], hi, lo)
		}
		if lo >= lw {
			return ts.Extract(a.a[0], hi-lw, lo-lw)
		}
	case OpZExt:
		iw := a.a[0].w
		if hi < iw {
			return ts.Extract(a.a[0], hi, lo)
		}
		if lo >= iw {
			return ts.Const(w, 0)
		}
		if lo == 0 {
			return ts.ZExt(a.a[0], w)
		}
	case OpSExt:
		iw := a.a[0].w
		if hi < iw {
			return ts.Extract(a.a[0], hi, lo)
		}
	case OpExtract:
		ilo := uint8(a.val & 0xff)
		return ts.Extract(a.a[0], hi+ilo, lo+ilo)
	case OpBAnd, OpBOr, OpBXor:
		// push extract through bitwise ops (bit-parallel): keeps word-at-a-time code byte-level
		return ts.Bin(a.op, ts.Extract(a.a[0], hi, lo), ts.Extract(a.a[1], hi, lo))
	case OpBNot:
		return ts.Un(OpBNot, ts.Extract(a.a[0], hi, lo))
	case OpShl:
		// extract of (x << k) with constant k
		if a.a[1].IsConst() {
			k := uint8(a.a[1].val)
			if lo >= k {
				return ts.Extract(a.a[0], hi-k, lo-k)
			}
			if hi < k {
				return ts.Const(w, 0)
			}
		}
	case OpLShr:
		if a.a[1].IsConst() {
			k := uint8(a.a[1].val)
			if uint(hi)+uint(k) < uint(a.w) {
				return ts.Extract(a.a[0], hi+k, lo+k)
			}
		}
	}
	return ts.mk(OpExtract, w, uint64(hi)<<8|uint64(lo), "", a, nil, nil)
}

func (ts *TermStore) ZExt(a *Term, w uint8) *Term {
	if w == a.w {
		return a
	}
	if w < a.w {
		return ts.Extract(a, w-1, 0)
	}
	if a.IsConst() {
		return ts.Const(w, a.val)
	}
	if a.op == OpZExt {
		return ts.ZExt(a.a[0], w)
	}
	return ts.mk(OpZExt, w, 0, "", a, nil, nil)
}

func (ts *TermStore) SExt(a *Term, w uint8) *Term {
	if w == a.w {
		return a
	}
	if w < a.w {
		return ts.Extract(a, w-1, 0)
	}
	if a.IsConst() {
		return ts.Const(w, uint64(sext(a.val, a.w)))
	}
	if a.op == OpZExt {
		return ts.ZExt(a.a[0], w)
	}
	return ts.mk(OpSExt, w, 0, "", a, nil, nil)
}

func (ts *TermStore) Concat(hi, lo *Term) *Term {
	w := hi.w + lo.w
	if w > 64 {
		panic("concat wider than 64")
	}
	if hi.IsConst() && lo.IsConst() {
		return ts.Const(w, hi.val<<lo.w|lo.val)
	}
	if hi.IsConst() && hi.val == 0 {
		return ts.ZExt(lo, w)
	}
	// concat(extract(x,h,m+1), extract(x,m,l)) = extract(x,h,l)
	if hi.op == OpExtract && lo.op == OpExtract && hi.a[0] == lo.a[0] {
		hlo := uint8(hi.val & 0xff)
		lhi := uint8(lo.val >> 8)
		if hlo == lhi+1 {
			return ts.Extract(hi.a[0], uint8(hi.val>>8), uint8(lo.val&0xff))
		}
	}
	return ts.mk(OpConcat, w, 0, "", hi, lo, nil)
}

// Conv builds an int->float or float->int conversion. w is the result width.
func (ts *TermStore) Conv(op Op, a *Term, w uint8) *Term {
	if a.IsConst() {
		switch op {
		case OpSToF:
			return ts.Const(64, math.Float64bits(float64(sext(a.val, a.w))))
		case OpUToF:
			return ts.Const(64, math.Float64bits(float64(a.val)))
		case OpFToS:
			return ts.Const(w, uint64(int64(math.Float64frombits(a.val))))
		case OpFToU:
			return ts.Const(w, uint64(math.Float64frombits(a.val)))
		}
	}
	return ts.mk(op, w, 0, "", a, nil, nil)
}

// ---------------------------------------------------------------------------------------
// Evaluation under a model (variables absent from the model are 0).

type Model map[string]uint64

func (ts *TermStore) NewGen() { ts.gen++ }

func (ts *TermStore) Eval(t *Term, m Model) uint64 {
	if t.op == OpConst {
		return t.val
	}
	if t.evGen == ts.gen {
		return t.evVal
	}
	var r uint64
	switch t.op {
	case OpVar:
		r = m[t.name] & maskB(t.w)
	case OpNot:
		r = 1 - ts.Eval(t.a[0], m)
	case OpAnd:
		if ts.Eval(t.a[0], m) == 0 {
			r = 0
		} else {
			r = ts.Eval(t.a[1], m)
		}
	case OpOr:
		if ts.Eval(t.a[0], m) != 0 {
			r = 1
		} else {
			r = ts.Eval(t.a[1], m)
		}
	case OpIte:
		if ts.Eval(t.a[0], m) != 0 {
			r = ts.Eval(t.a[1], m)
		} else {
			r = ts.Eval(t.a[2], m)
		}
	case OpEq:
		r = b2u(ts.Eval(t.a[0], m) == ts.Eval(t.a[1], m))
	case OpBNot:
		r = ^ts.Eval(t.a[0], m) & mask(t.w)
	case OpNeg:
		r = -ts.Eval(t.a[0], m) & mask(t.w)
	case OpFNeg:
		r = ts.Eval(t.a[0], m) ^ (1 << 63)
	case OpFIsNaN:
		f := math.Float64frombits(ts.Eval(t.a[0], m))
		r = b2u(f != f)
	case OpConcat:
		r = ts.Eval(t.a[0], m)<<t.a[1].w | ts.Eval(t.a[1], m)
	case OpExtract:
		lo := uint8(t.val & 0xff)
		r = (ts.Eval(t.a[0], m) >> lo) & mask(t.w)
	case OpZExt:
		r = ts.Eval(t.a[0], m)
	case OpSExt:
		r = uint64(sext(ts.Eval(t.a[0], m), t.a[0].w)) & mask(t.w)
	case OpSToF:
		r = math.Float64bits(float64(sext(ts.Eval(t.a[0], m), t.a[0].w)))
	case OpUToF:
		r = math.Float64bits(float64(ts.Eval(t.a[0], m)))
	case OpFToS:
		r = uint64(int64(math.Float64frombits(ts.Eval(t.a[0], m)))) & mask(t.w)
	case OpFToU:
		r = uint64(math.Float64frombits(ts.Eval(t.a[0], m))) & mask(t.w)
	default:
		r = evalBin(t.op, t.a[0].w, ts.Eval(t.a[0], m), ts.Eval(t.a[1], m))
	}
	t.evGen = ts.gen
	t.evVal = r
	return r
}

func maskB(w uint8) uint64 {
	if w == 0 {
		return 1
	}
	return mask(w)
}

// ---------------------------------------------------------------------------------------
// SMT-LIB2 serialisation. Every non-leaf term is emitted once per solver session as a
// zero-ary define-fun named t<id> (sessions use :global-declarations). FP-valued operations
// are emitted as a declared constant plus a defining constraint which must be asserted with
// every query that mentions the term (collected by AuxOf).

func sortStr(w uint8) string {
	if w == 0 {
		return "Bool"
	}
	return fmt.Sprintf("(_ BitVec %d)", w)
}

func constStr(w uint8, v uint64) string {
	if w == 0 {
		if v != 0 {
			return "true"
		}
		return "false"
	}
	if w%4 == 0 {
		return fmt.Sprintf("#x%0*x", int(w/4), v)
	}
	return fmt.Sprintf("#b%0*b", int(w), v)
}

func (t *Term) ref() string {
	switch t.op {
	case OpConst:
		return constStr(t.w, t.val)
	case OpVar:
		return t.name
	}
	return fmt.Sprintf("t%d", t.id)
}

const toFP = "(_ to_fp 11 53)"

// Define emits (into sb) the definitions of t and everything below it that the session
// `sess` has not seen yet.
func (ts *TermStore) Define(sb *strings.Builder, t *Term, slot, sess int) {
	if t.op == OpConst || t.defIn[slot] == sess {
		return
	}
	// iterative post-order to avoid deep recursion on long chains
	type fr struct {
		t *Term
		i int
	}
	stack := []fr{{t, 0}}
	for len(stack) > 0 {
		f := &stack[len(stack)-1]
		if f.t.op == OpConst || f.t.defIn[slot] == sess {
			stack = stack[:len(stack)-1]
			continue
		}
		if f.i < 3 {
			c := f.t.a[f.i]
			f.i++
			if c != nil && c.op != OpConst && c.defIn[slot] != sess {
				stack = append(stack, fr{c, 0})
			}
			continue
		}
		ts.define1(sb, f.t)
		f.t.defIn[slot] = sess
		stack = stack[:len(stack)-1]
	}
}

func (ts *TermStore) define1(sb *strings.Builder, t *Term) {
	if t.op == OpVar {
		fmt.Fprintf(sb, "(declare-const %s %s)\n", t.name, sortStr(t.w))
		return
	}
	a0, a1, a2 := t.a[0], t.a[1], t.a[2]
	var body string
	switch t.op {
	case OpExtract:
		body = fmt.Sprintf("((_ extract %d %d) %s)", t.val>>8, t.val&0xff, a0.ref())
	case OpZExt:
		body = fmt.Sprintf("((_ zero_extend %d) %s)", t.w-a0.w, a0.ref())
	case OpSExt:
		body = fmt.Sprintf("((_ sign_extend %d) %s)", t.w-a0.w, a0.ref())
	case OpIte:
		body = fmt.Sprintf("(ite %s %s %s)", a0.ref(), a1.ref(), a2.ref())
	case OpFEq:
		body = fmt.Sprintf("(fp.eq (%s %s) (%s %s))", toFP, a0.ref(), toFP, a1.ref())
	case OpFLt:
		body = fmt.Sprintf("(fp.lt (%s %s) (%s %s))", toFP, a0.ref(), toFP, a1.ref())
	case OpFLe:
		body = fmt.Sprintf("(fp.leq (%s %s) (%s %s))", toFP, a0.ref(), toFP, a1.ref())
	case OpFIsNaN:
		body = fmt.Sprintf("(fp.isNaN (%s %s))", toFP, a0.ref())
	case OpFNeg:
		body = fmt.Sprintf("(bvxor %s #x8000000000000000)", a0.ref())
	case OpFToS:
		body = fmt.Sprintf("((_ fp.to_sbv %d) RTZ (%s %s))", t.w, toFP, a0.ref())
	case OpFToU:
		body = fmt.Sprintf("((_ fp.to_ubv %d) RTZ (%s %s))", t.w, toFP, a0.ref())
	case OpFAdd, OpFSub, OpFMul, OpFDiv, OpSToF, OpUToF:
		// declared constant; the defining constraint is produced by auxStr
		fmt.Fprintf(sb, "(declare-const t%d (_ BitVec 64))\n", t.id)
		return
	default:
		name, ok := opNames[t.op]
		if !ok {
			panic(fmt.Sprintf("define1: op %d", t.op))
		}
		if a1 == nil {
			body = fmt.Sprintf("(%s %s)", name, a0.ref())
		} else {
			body = fmt.Sprintf("(%s %s %s)", name, a0.ref(), a1.ref())
		}
	}
	fmt.Fprintf(sb, "(define-fun t%d () %s %s)\n", t.id, sortStr(t.w), body)
}

func (t *Term) fpExpr() string {
	a0, a1 := t.a[0], t.a[1]
	switch t.op {
	case OpFAdd:
		return fmt.Sprintf("(fp.add RNE (%s %s) (%s %s))", toFP, a0.ref(), toFP, a1.ref())
	case OpFSub:
		return fmt.Sprintf("(fp.sub RNE (%s %s) (%s %s))", toFP, a0.ref(), toFP, a1.ref())
	case OpFMul:
		return fmt.Sprintf("(fp.mul RNE (%s %s) (%s %s))", toFP, a0.ref(), toFP, a1.ref())
	case OpFDiv:
		return fmt.Sprintf("(fp.div RNE (%s %s) (%s %s))", toFP, a0.ref(), toFP, a1.ref())
	case OpSToF:
		return fmt.Sprintf("(%s RNE %s)", toFP, a0.ref())
	case OpUToF:
		return fmt.Sprintf("((_ to_fp_unsigned 11 53) RNE %s)", a0.ref())
	}
	panic("fpExpr")
}

// AuxOf collects the defining constraints of all FP-valued operations in the cone of t.
func (ts *TermStore) AuxOf(t *Term, seen map[int]bool, out *[]string) {
	if t == nil || !t.hasFP || seen[t.id] {
		return
	}
	seen[t.id] = true
	for _, c := range t.a {
		ts.AuxOf(c, seen, out)
	}
	switch t.op {
	case OpFAdd, OpFSub, OpFMul, OpFDiv, OpSToF, OpUToF:
		e := t.fpExpr()
		*out = append(*out, fmt.Sprintf("(ite (fp.isNaN %s) (= t%d #x%016x) (= (%s t%d) %s))", e, t.id, uint64(canonicalNaN), toFP, t.id, e))
	}
}

func (t *Term) String() string {
	var sb strings.Builder
	t.str(&sb, 0)
	return sb.String()
}

func (t *Term) str(sb *strings.Builder, d int) {
	if d > 6 {
		sb.WriteString("...")
		return
	}
	switch t.op {
	case OpConst, OpVar:
		sb.WriteString(t.ref())
		return
	case OpExtract:
		fmt.Fprintf(sb, "(extract[%d:%d] ", t.val>>8, t.val&0xff)
	case OpZExt:
		fmt.Fprintf(sb, "(zext%d ", t.w)
	case OpSExt:
		fmt.Fprintf(sb, "(sext%d ", t.w)
	default:
		n := opNames[t.op]
		if n == "" {
			n = fmt.Sprintf("op%d", t.op)
		}
		sb.WriteString("(" + n + " ")
	}
	for i, c := range t.a {
		if c == nil {
			break
		}
		if i > 0 {
			sb.WriteString(" ")
		}
		c.str(sb, d+1)
	}
	sb.WriteString(")")
}

var _ = bits.Len
