// Engine threads, channels, locks and happens-before race detection. Exactly one engine
// thread runs at a time (baton passing); context switches happen only at visible operations
// and the choice of the next thread is a decision of the path (kind 's'), so schedules are
// explored like any other fork.
package main

import (
	"fmt"
	"go/token"
	"go/types"

	"golang.org/x/tools/go/ssa"
)

type threadKill struct{}

type thread struct {
	id      int
	baton   chan struct{}
	exited  chan struct{}
	done    bool
	killed  bool
	blocked func() bool // non-nil while waiting; true when the thread can make progress
	what    string
	vc      vclock
	name    string
	savedFrame *frame
	pending    []interface{} // synchronisation objects of the operation this thread is about to perform
}

type vclock []int

func (a vclock) join(b vclock) vclock {
	n := len(a)
	if len(b) > n {
		n = len(b)
	}
	r := make(vclock, n)
	copy(r, a)
	for k, v := range b {
		if v > r[k] {
			r[k] = v
		}
	}
	return r
}

func (a vclock) get(k int) int {
	if k < len(a) {
		return a[k]
	}
	return 0
}

// leq reports whether the event (thread t at time c) happens before or equals clock a.
func (a vclock) covers(t, c int) bool { return a.get(t) >= c }

type channel struct {
	capacity int
	elem     types.Type
	buf      []value
	closed   bool
	sendq    []*pendingSend // blocked senders (unbuffered or full)
	recvWait int            // number of receivers currently blocked
	vc       vclock
	never    bool // timer channel that never fires
	mayFire  bool // timer channel that may fire: decided (forked) when a select first looks at it
}

type pendingSend struct {
	v     value
	taken bool
}

type shadow struct {
	wT, wC int // last write: thread and its clock component
	wWhere string
	reads  map[int]int // thread -> clock component of its last read
	rWhere map[int]string
}

func (i *interpreter) threaded() bool { return len(i.threads) > 1 }

func (i *interpreter) runMain(fn *ssa.Function) {
	main := &thread{id: 0, baton: make(chan struct{}, 1), name: "main", vc: vclock{1}}
	i.threads = []*thread{main}
	i.cur = main
	i.pendingAbort = nil
	i.shadows = nil
	i.mutexes = nil
	i.pools = nil
	i.copyCost = 0
	i.atomics = nil
	i.elemOf = nil
	i.addrs = nil
	call(i, nil, token.NoPos, fn, nil)
	// the harness returned: remaining threads are abandoned (like process exit)
	i.killThreads()
}

// killThreads terminates all parked engine threads of the current path. Called by the
// goroutine that runs thread 0 only.
func (i *interpreter) killThreads() {
	for _, t := range i.threads {
		if t.id != 0 && !t.done {
			t.killed = true
			t.baton <- struct{}{}
			<-t.exited
		}
	}
	i.threads = nil
	i.cur = nil
	i.shadows = nil
}

// spawn starts a new engine thread for a go statement.
func (i *interpreter) spawn(fn value, args []value, pos token.Pos) {
	if i.initMode {
		return // goroutines started by package initialisers are not modelled
	}
	parent := i.cur
	t := &thread{id: len(i.threads), baton: make(chan struct{}, 1), exited: make(chan struct{}), name: fmt.Sprintf("goroutine %d", len(i.threads))}
	// happens-before: everything before the go statement precedes the child
	parent.vc = tick(parent.vc, parent.id)
	t.vc = tick(parent.vc.join(nil), t.id)
	if i.shadows == nil {
		i.shadows = map[interface{}]*shadow{}
	}
	i.threads = append(i.threads, t)
	go func() {
		defer close(t.exited)
		<-t.baton
		if t.killed {
			t.done = true
			return
		}
		defer func() {
			r := recover()
			t.done = true
			if _, ok := r.(threadKill); ok {
				return
			}
			if r != nil {
				// path abort or uncaught target panic in a goroutine: hand to the main thread
				if i.pendingAbort == nil {
					i.pendingAbort = r
				}
				i.cur = i.threads[0]
				i.threads[0].baton <- struct{}{}
				return
			}
			// normal exit: pass the baton on
			func() {
				defer func() {
					if r := recover(); r != nil {
						if i.pendingAbort == nil {
							i.pendingAbort = r
						}
						i.cur = i.threads[0]
						i.threads[0].baton <- struct{}{}
					}
				}()
				i.exitThread(t)
			}()
		}()
		call(i, nil, pos, fn, args)
	}()
	// no scheduling choice here: the child can first run at the parent's next visible operation,
	// which is equivalent (the parent's code in between is thread-local or reported as a race)
}

func tick(v vclock, id int) vclock {
	r := make(vclock, max(len(v), id+1))
	copy(r, v)
	r[id]++
	return r
}

func (t *thread) runnable() bool {
	if t.done {
		return false
	}
	return t.blocked == nil || t.blocked()
}

// choose makes an n-way scheduling/selection decision (no solver involved).
func (i *interpreter) choose(n int) int {
	if n <= 1 {
		return 0
	}
	p := i.p
	p.nontrivial = true
	if p.replaying() {
		d := p.item.prefix[p.pos]
		if d.Kind != 's' {
			panic(fmt.Sprintf("replay divergence: expected decision kind %c, got schedule", d.Kind))
		}
		p.pos++
		p.record(d)
		return int(d.Val)
	}
	for alt := n - 1; alt >= 1; alt-- {
		pre := make([]decision, len(p.decisions)+1)
		copy(pre, p.decisions)
		pre[len(p.decisions)] = decision{'s', uint64(alt)}
		i.w.ex.push(&workItem{prefix: pre, model: p.model})
	}
	p.record(decision{'s', 0})
	return 0
}

// yield is a visible operation: any runnable thread may run next.
// yield is a visible (acquiring) operation on the synchronisation objects objs: any runnable
// thread may run next. Sleep sets (Godefroid) prune schedules that only reorder independent
// operations: a thread passed over at a decision stays asleep until an operation on one of
// its pending objects has been executed. objs == nil means "unknown": never put to sleep.
func (i *interpreter) yield(what string, objs ...interface{}) {
	if !i.threaded() {
		return
	}
	me := i.cur
	me.pending = objs
	me.what = what
	var run []*thread
	for _, t := range i.threads {
		if t.runnable() {
			run = append(run, t)
		}
	}
	if len(run) == 0 {
		i.deadlock()
	}
	// put the current thread first so that decision 0 = "continue"
	for k, t := range run {
		if t == me {
			run[0], run[k] = run[k], run[0]
			break
		}
	}
	next := i.pick(run)
	i.switchTo(me, next)
	i.wake(objs)
}

// pick makes the scheduling decision among the candidates that are not asleep.
func (i *interpreter) pick(run []*thread) *thread {
	p := i.p
	var cands []*thread
	for _, t := range run {
		if _, asleep := p.sleep[t.id]; !asleep {
			cands = append(cands, t)
		}
	}
	if len(cands) == 0 {
		// every runnable thread is asleep: this schedule is a reordering of independent
		// operations of one already explored
		i.abort(abPruned, "schedule pruned by sleep set")
	}
	k := i.choose(len(cands))
	for j := 0; j < k; j++ {
		if cands[j].pending != nil {
			if p.sleep == nil {
				p.sleep = map[int][]interface{}{}
			}
			p.sleep[cands[j].id] = cands[j].pending
		}
	}
	return cands[k]
}

// wake removes from the sleep set every thread whose pending operation depends on (shares a
// synchronisation object with) the operation being executed.
func (i *interpreter) wake(objs []interface{}) {
	p := i.p
	if len(p.sleep) == 0 {
		return
	}
	for id, pend := range p.sleep {
		dep := objs == nil
		for _, a := range pend {
			for _, b := range objs {
				if a == b {
					dep = true
				}
			}
		}
		if dep {
			delete(p.sleep, id)
		}
	}
}

func (i *interpreter) switchTo(me, next *thread) {
	if next == me {
		return
	}
	i.cur = next
	me.savedFrame = i.curFrame
	next.baton <- struct{}{}
	<-me.baton
	i.curFrame = me.savedFrame
	if me.killed {
		panic(threadKill{})
	}
	if me.id == 0 && i.pendingAbort != nil {
		r := i.pendingAbort
		i.pendingAbort = nil
		panic(r)
	}
}

// block parks the current thread until cond holds.
func (i *interpreter) block(what string, cond func() bool) {
	me := i.cur
	for !cond() {
		if !i.threaded() {
			i.deadlock()
		}
		me.blocked = cond
		me.what = what
		var run []*thread
		for _, t := range i.threads {
			if t != me && t.runnable() {
				run = append(run, t)
			}
		}
		if len(run) == 0 {
			me.blocked = nil
			i.deadlock()
		}
		next := i.pick(run)
		i.switchTo(me, next)
		me.blocked = nil
	}
}

func (i *interpreter) exitThread(t *thread) {
	var run []*thread
	for _, o := range i.threads {
		if o != t && o.runnable() {
			run = append(run, o)
		}
	}
	if len(run) == 0 {
		// every other thread is blocked forever: report as deadlock through the main thread
		panic(pathAbort{abDeadlock, i.deadlockMsg()})
	}
	next := i.pick(run)
	i.cur = next
	next.baton <- struct{}{}
}

func (i *interpreter) deadlockMsg() string {
	msg := "all goroutines are blocked:"
	for _, t := range i.threads {
		if !t.done {
			msg += fmt.Sprintf(" [%s waiting on %s]", t.name, t.what)
		}
	}
	return msg
}

func (i *interpreter) deadlock() {
	msg := i.deadlockMsg()
	if !i.p.replaying() {
		i.reportViolation("deadlock", "deadlock", "", msg, i.p.model)
	}
	i.abort(abDeadlock, msg)
}

// ---------------------------------------------------------------------------------------
// Happens-before bookkeeping

// acqRel performs an acquire+release on a synchronisation object's clock.
func (i *interpreter) acqRel(vc *vclock) {
	if !i.threaded() {
		return
	}
	me := i.cur
	me.vc = me.vc.join(*vc)
	*vc = me.vc.join(nil)
	me.vc = tick(me.vc, me.id)
}

func (i *interpreter) acquire(vc *vclock) {
	if !i.threaded() {
		return
	}
	me := i.cur
	me.vc = me.vc.join(*vc)
}

func (i *interpreter) release(vc *vclock) {
	if !i.threaded() {
		return
	}
	me := i.cur
	*vc = vc.join(me.vc)
	me.vc = tick(me.vc, me.id)
}

// access records a read or write of a memory location and reports unordered conflicts.
func (i *interpreter) access(loc interface{}, write bool) {
	if i.shadows == nil || i.cur == nil || i.initMode {
		return
	}
	me := i.cur
	sh := i.shadows[loc]
	if sh == nil {
		sh = &shadow{wT: -1}
		i.shadows[loc] = sh
	}
	myC := me.vc.get(me.id)
	if sh.wT >= 0 && sh.wT != me.id && !me.vc.covers(sh.wT, sh.wC) {
		i.race(sh.wWhere, true, write)
	}
	if write {
		for t, c := range sh.reads {
			if t != me.id && !me.vc.covers(t, c) {
				i.race(sh.rWhere[t], false, true)
			}
		}
		sh.wT, sh.wC = me.id, myC
		sh.wWhere = i.where()
		sh.reads = nil
		sh.rWhere = nil
	} else {
		if sh.reads == nil {
			sh.reads = map[int]int{}
			sh.rWhere = map[int]string{}
		}
		sh.reads[me.id] = myC
		sh.rWhere[me.id] = i.where()
	}
}

func (i *interpreter) where() string {
	if i.curFrame != nil {
		return i.curFrame.fn.String()
	}
	return "?"
}

func (i *interpreter) race(other string, otherWrite, write bool) {
	kind := func(w bool) string {
		if w {
			return "write"
		}
		return "read"
	}
	msg := fmt.Sprintf("data race: %s in %s is not ordered with earlier %s in %s", kind(write), i.where(), kind(otherWrite), other)
	if i.p.replaying() {
		return
	}
	if i.p.races == nil {
		i.p.races = map[string]bool{}
	}
	if i.p.races[msg] {
		return
	}
	i.p.races[msg] = true
	i.reportViolation("race", "data race", "", msg, i.p.model)
}

// ---------------------------------------------------------------------------------------
// Channels

func chanSend(i *interpreter, ch *channel, v value) {
	if ch == nil {
		i.block("send on nil channel", func() bool { return false })
	}
	if ch.capacity > 0 && len(ch.buf) < ch.capacity && !ch.closed {
		// a send that cannot block is a releasing operation: no scheduling choice before it
		// (see mutexUnlock); it still wakes sleepers that depend on this channel
		i.acqRel(&ch.vc)
		ch.buf = append(ch.buf, v)
		if i.threaded() {
			i.wake([]interface{}{ch})
		}
		return
	}
	i.yield("chan send", ch)
	if ch.closed {
		panic(runtimeError("send on closed channel"))
	}
	if ch.capacity > 0 {
		i.block("chan send (buffer full)", func() bool { return len(ch.buf) < ch.capacity || ch.closed })
		if ch.closed {
			panic(runtimeError("send on closed channel"))
		}
		i.acqRel(&ch.vc)
		ch.buf = append(ch.buf, v)
		return
	}
	// unbuffered: enqueue and wait until a receiver took it
	ps := &pendingSend{v: v}
	i.release(&ch.vc)
	ch.sendq = append(ch.sendq, ps)
	i.block("chan send (no receiver)", func() bool { return ps.taken || ch.closed })
	if !ps.taken {
		panic(runtimeError("send on closed channel"))
	}
	i.acquire(&ch.vc)
}

func chanReady(ch *channel) bool {
	if ch == nil || ch.never {
		return false
	}
	if len(ch.buf) > 0 || ch.closed {
		return true
	}
	for _, ps := range ch.sendq {
		if !ps.taken {
			return true
		}
	}
	return false
}

func chanTake(i *interpreter, ch *channel) (value, bool) {
	if len(ch.buf) > 0 {
		v := ch.buf[0]
		ch.buf = append([]value(nil), ch.buf[1:]...)
		i.acqRel(&ch.vc)
		return v, true
	}
	for k, ps := range ch.sendq {
		if !ps.taken {
			ps.taken = true
			ch.sendq = append(ch.sendq[:k:k], ch.sendq[k+1:]...)
			i.acqRel(&ch.vc)
			return ps.v, true
		}
	}
	if ch.closed {
		i.acquire(&ch.vc)
		return nil, false
	}
	panic("chanTake: not ready")
}

func chanRecv(i *interpreter, ch *channel) (value, bool) {
	if ch == nil {
		i.block("receive on nil channel", func() bool { return false })
	}
	i.yield("chan receive", ch)
	i.block("chan receive", func() bool { return chanReady(ch) })
	return chanTake(i, ch)
}

func chanClose(i *interpreter, ch *channel) {
	if ch == nil {
		panic(runtimeError("close of nil channel"))
	}
	if ch.closed {
		panic(runtimeError("close of closed channel"))
	}
	i.yield("chan close", ch)
	i.release(&ch.vc)
	ch.closed = true
}

func chanCanSend(ch *channel) bool {
	if ch == nil || ch.never {
		return false
	}
	if ch.closed {
		return true // will panic
	}
	if ch.capacity > 0 {
		return len(ch.buf) < ch.capacity
	}
	return ch.recvWait > 0
}

func doSelect(fr *frame, instr *ssa.Select) value {
	i := fr.i
	var selObjs []interface{}
	for _, s := range instr.States {
		if ch, _ := fr.get(s.Chan).(*channel); ch != nil {
			selObjs = append(selObjs, ch)
		}
	}
	i.yield("select", selObjs...)
	// a timer that may fire: fork now on "it has fired by the time of this select" / "it never fires"
	for _, s := range instr.States {
		if ch, _ := fr.get(s.Chan).(*channel); ch != nil && ch.mayFire {
			ch.mayFire = false
			if i.choose(2) == 1 {
				ch.never = false
				ch.buf = append(ch.buf, zero(ch.elem))
			}
		}
	}
	type st struct {
		ch   *channel
		send bool
		v    value
	}
	var states []st
	for _, s := range instr.States {
		ch, _ := fr.get(s.Chan).(*channel)
		x := st{ch: ch, send: s.Dir == types.SendOnly}
		if x.send {
			x.v = fr.get(s.Send)
		}
		states = append(states, x)
	}
	ready := func() []int {
		var r []int
		for k, s := range states {
			if s.send && chanCanSend(s.ch) || !s.send && chanReady(s.ch) {
				r = append(r, k)
			}
		}
		return r
	}
	r := ready()
	chosen := -1
	if len(r) == 0 {
		if instr.Blocking {
			for _, s := range states {
				if !s.send && s.ch != nil {
					s.ch.recvWait++
				}
			}
			i.block("select", func() bool { return len(ready()) > 0 })
			for _, s := range states {
				if !s.send && s.ch != nil {
					s.ch.recvWait--
				}
			}
			r = ready()
		}
	}
	if len(r) > 0 {
		chosen = r[i.choose(len(r))]
	}
	var recvV value
	recvOk := false
	if chosen >= 0 {
		s := states[chosen]
		if s.send {
			if s.ch.closed {
				panic(runtimeError("send on closed channel"))
			}
			if s.ch.capacity > 0 {
				i.acqRel(&s.ch.vc)
				s.ch.buf = append(s.ch.buf, s.v)
			} else {
				i.abort(abUnsupported, "select send on an unbuffered channel")
			}
		} else {
			recvV, recvOk = chanTake(i, s.ch)
		}
	}
	res := tuple{chosen, recvOk}
	for k, s := range instr.States {
		if s.Dir == types.RecvOnly {
			var v value
			if k == chosen && recvOk {
				v = recvV
			} else {
				v = zero(s.Chan.Type().Underlying().(*types.Chan).Elem())
			}
			res = append(res, v)
		}
	}
	return res
}
