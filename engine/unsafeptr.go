// A small model of unsafe pointer arithmetic, enough for word-at-a-time loops over byte slices
// (websocket/mask.go): unsafe.Pointer values that point into a byte slice or array are
// (cells, offset) pairs; uintptr values derived from them keep that pair (so pointer +
// constant offset works) and have a symbolic numeric address (so alignment tests fork);
// *uintptr / *uint64 / *uint32 views load and store little-endian words over the cells.
package main

import (
	"fmt"
	"go/token"
	"go/types"

	"golang.org/x/tools/go/ssa"
)

type uptr struct {
	cells []value // backing cells starting at the pointed-to element's slice start
	off   int
	raw   *value // pointer that is not into a registered slice/array (opaque)
}

type ptrInt struct {
	p uptr
	k types.BasicKind
}

type wordPtr struct {
	p    uptr
	size int
	k    types.BasicKind
}

type elemRef struct {
	cells []value
	idx   int
}

func (i *interpreter) pkgUsesUnsafe(pkg *ssa.Package) bool {
	if pkg == nil {
		return false
	}
	if v, ok := i.unsafePkgs[pkg]; ok {
		return v
	}
	uses := false
	for _, imp := range pkg.Pkg.Imports() {
		if imp.Path() == "unsafe" {
			uses = true
		}
	}
	if i.unsafePkgs == nil {
		i.unsafePkgs = map[*ssa.Package]bool{}
	}
	i.unsafePkgs[pkg] = uses
	return uses
}

// noteElem remembers which slice an element pointer was taken from (only in packages that
// import unsafe), so that a later conversion to unsafe.Pointer can recover the backing cells.
func (i *interpreter) noteElem(fr *frame, ptr *value, cells []value, idx int) {
	if !i.pkgUsesUnsafe(fr.fn.Pkg) {
		return
	}
	if i.elemOf == nil {
		i.elemOf = map[*value]elemRef{}
	}
	i.elemOf[ptr] = elemRef{cells[:cap(cells)], idx}
}

// addrOf returns the symbolic numeric address of cells[0] (one unconstrained value per
// backing array and path: the allocator's placement and alignment are arbitrary).
func (i *interpreter) addrOf(cells []value) *Term {
	if len(cells) == 0 {
		return i.ts.Const(64, 0x10000)
	}
	key := &cells[0]
	if i.addrs == nil {
		i.addrs = map[*value]*Term{}
	}
	if t, ok := i.addrs[key]; ok {
		return t
	}
	if !i.w.ex.cfg.SymAddr {
		// default: every object sits at a 16-byte aligned address (alignment-dependent code takes
		// its aligned path); harnesses about such code ask for symbolic addresses
		t := i.ts.Const(64, 0x100000)
		i.addrs[key] = t
		return t
	}
	s := i.freshEnv(64, types.Uintptr)
	// a plausible user-space address: non-zero, below 2^47, room for the object
	i.assume(i.ts.And(i.ts.Bin(OpUle, i.ts.Const(64, 0x1000), s.t), i.ts.Bin(OpUlt, s.t, i.ts.Const(64, 1<<47))))
	i.addrs[key] = s.t
	return s.t
}

// convUnsafe handles conversions that involve modelled unsafe pointers.
func (i *interpreter) convUnsafe(tDst, tSrc types.Type, x value) (value, bool) {
	uDst, uSrc := tDst.Underlying(), tSrc.Underlying()
	dstBasic, _ := uDst.(*types.Basic)
	srcBasic, _ := uSrc.(*types.Basic)
	switch xv := x.(type) {
	case *value:
		if _, isPtr := uSrc.(*types.Pointer); isPtr && dstBasic != nil && dstBasic.Kind() == types.UnsafePointer {
			if xv == nil {
				return uptr{}, true
			}
			if ref, ok := i.elemOf[xv]; ok {
				return uptr{cells: ref.cells, off: ref.idx}, true
			}
			if arr, ok := (*xv).(array); ok {
				return uptr{cells: arr}, true
			}
			return uptr{raw: xv}, true
		}
	case uptr:
		if srcBasic != nil && srcBasic.Kind() == types.UnsafePointer {
			if dstBasic != nil && dstBasic.Info()&types.IsInteger != 0 {
				return &ptrInt{xv, dstBasic.Kind()}, true
			}
			if dstBasic != nil && dstBasic.Kind() == types.UnsafePointer {
				return xv, true
			}
			if dp, ok := uDst.(*types.Pointer); ok {
				if xv.raw != nil {
					i.abort(abUnsupported, "conversion of an opaque unsafe.Pointer to "+tDst.String())
				}
				if eb, ok := dp.Elem().Underlying().(*types.Basic); ok {
					switch eb.Kind() {
					case types.Uintptr, types.Uint64, types.Int64, types.Uint, types.Int:
						return &wordPtr{xv, 8, eb.Kind()}, true
					case types.Uint32, types.Int32:
						return &wordPtr{xv, 4, eb.Kind()}, true
					case types.Uint16, types.Int16:
						return &wordPtr{xv, 2, eb.Kind()}, true
					case types.Uint8, types.Int8:
						if xv.cells != nil && xv.off >= 0 && xv.off < len(xv.cells) {
							return &xv.cells[xv.off], true
						}
					}
				}
				i.abort(abUnsupported, "unsafe.Pointer converted to "+tDst.String())
			}
		}
	case *ptrInt:
		if dstBasic != nil && dstBasic.Kind() == types.UnsafePointer {
			return xv.p, true
		}
		if dstBasic != nil && dstBasic.Info()&types.IsInteger != 0 {
			return &ptrInt{xv.p, dstBasic.Kind()}, true
		}
		i.abort(abUnsupported, "pointer-derived integer converted to "+tDst.String())
	}
	return nil, false
}

// ptrIntBinop implements arithmetic on pointer-derived integers.
func (i *interpreter) ptrIntBinop(op token.Token, x, y value) (value, bool) {
	px, xok := x.(*ptrInt)
	py, yok := y.(*ptrInt)
	if !xok && !yok {
		return nil, false
	}
	if xok && !yok && !isSym(y) {
		n := asInt64(y)
		switch op {
		case token.ADD:
			return &ptrInt{uptr{cells: px.p.cells, off: px.p.off + int(n)}, px.k}, true
		case token.SUB:
			return &ptrInt{uptr{cells: px.p.cells, off: px.p.off - int(n)}, px.k}, true
		case token.REM, token.AND, token.QUO, token.SHR:
			// numeric value of the address: alignment tests and the like
			if px.p.raw != nil {
				i.abort(abUnsupported, "arithmetic on the address of an opaque pointer")
			}
			ts := i.ts
			addr := ts.Bin(OpAdd, i.addrOf(px.p.cells), ts.Const(64, uint64(int64(px.p.off))))
			c := ts.Const(64, uint64(n))
			var r *Term
			switch op {
			case token.REM:
				if n == 0 {
					panic(runtimeError("integer divide by zero"))
				}
				r = ts.Bin(OpURem, addr, c)
			case token.AND:
				r = ts.Bin(OpBAnd, addr, c)
			case token.QUO:
				if n == 0 {
					panic(runtimeError("integer divide by zero"))
				}
				r = ts.Bin(OpUDiv, addr, c)
			case token.SHR:
				r = ts.Bin(OpLShr, addr, c)
			}
			k := px.k
			if kindWidth(k) != 64 {
				i.abort(abUnsupported, "narrow pointer-derived integer")
			}
			return i.mkVal(r, k), true
		}
	}
	if !xok && yok && !isSym(x) && op == token.ADD {
		return &ptrInt{uptr{cells: py.p.cells, off: py.p.off + int(asInt64(x))}, py.k}, true
	}
	i.abort(abUnsupported, fmt.Sprintf("operation %s on pointer-derived integers", op))
	return nil, false
}

func (i *interpreter) loadWord(w *wordPtr) value {
	c := w.p.cells
	if c == nil || w.p.off < 0 || w.p.off+w.size > len(c) {
		// reading beyond the object: undefined behaviour in Go; reported, not modelled
		panic(runtimeError(fmt.Sprintf("unsafe word load of %d bytes at offset %d outside an object of %d bytes", w.size, w.p.off, len(c))))
	}
	ts := i.ts
	var acc *Term
	for k := w.size - 1; k >= 0; k-- { // little endian: the highest address is the most significant byte
		b := i.term(c[w.p.off+k], types.Uint8)
		if acc == nil {
			acc = b
		} else {
			acc = ts.Concat(acc, b)
		}
	}
	return i.mkVal(acc, w.k)
}

func (i *interpreter) storeWord(w *wordPtr, v value) {
	c := w.p.cells
	if c == nil || w.p.off < 0 || w.p.off+w.size > len(c) {
		panic(runtimeError(fmt.Sprintf("unsafe word store of %d bytes at offset %d outside an object of %d bytes", w.size, w.p.off, len(c))))
	}
	t := i.term(v, w.k)
	for k := 0; k < w.size; k++ {
		c[w.p.off+k] = i.mkVal(i.ts.Extract(t, uint8(8*k+7), uint8(8*k)), types.Uint8)
	}
}
