// Copyright 2013 The Go Authors. All rights reserved.
// Use of this source code is governed by a BSD-style
// license that can be found in the LICENSE.x-tools file.
//
// Derived from golang.org/x/tools/go/ssa/interp/value.go; see interp.go.

package main

// Values
//
// All interpreter values are "boxed" in the empty interface, value.
// The range of possible dynamic types within value are:
//
// - bool
// - numbers (all built-in int/float/complex types are distinguished)
// - *sym       -- a symbolic scalar (bool, integer or float64) given by an SMT term
// - string     -- fully concrete string
// - sstr       -- string with at least one symbolic byte (concrete length)
// - opaqueStr  -- result of stubbed formatting; its contents may not be inspected
// - *omap      -- maps (ordered association lists; nil = nil map)
// - *channel   -- channels
// - *value     -- pointers.  Careful: *value is a distinct type from *array etc.
// - array, structure, tuple, iface, []value, *closure, *ssa.Function, *ssa.Builtin
// - poison     -- result of a package initialiser that could not be executed

import (
	"bytes"
	"fmt"
	"go/types"
	"unsafe"

	"golang.org/x/tools/go/ssa"
)

type value interface{}

type tuple []value

type array []value

type iface struct {
	t types.Type // never an "untyped" type
	v value
}

type structure []value

// sym is a symbolic scalar: a term plus the Go basic kind it stands for.
type sym struct {
	t *Term
	k types.BasicKind
}

// sstr is a string some of whose bytes are symbolic. Immutable.
type sstr struct {
	b []value // uint8 or *sym(Uint8)
}

// opaqueStr is the result of a stubbed formatting function.
type opaqueStr struct{ id int }

type poison struct{ why string }

// For map, array, *array, slice, string or channel.
type iter interface {
	// next returns a Tuple (key, value, ok).
	next() tuple
}

type closure struct {
	Fn  *ssa.Function
	Env []value
}

type bad struct{}

type rtype struct {
	t types.Type
}

// nil-tolerant variant of types.Identical.
func sameType(x, y types.Type) bool {
	if x == nil {
		return y == nil
	}
	return y != nil && types.Identical(x, y)
}

// equalsV returns x == y according to Go's equivalence relation for type t: a bool, or a
// *sym of kind Bool when the comparison depends on symbolic scalars.
func equalsV(i *interpreter, t types.Type, x, y value) value {
	if isSym(x) || isSym(y) {
		k := kindOfValue(x, y)
		xt, yt := i.term(x, k), i.term(y, k)
		if k == types.Float64 {
			return i.mkBool(i.ts.Bin(OpFEq, xt, yt))
		}
		return i.mkBool(i.ts.Eq(xt, yt))
	}
	switch x := x.(type) {
	case bool:
		return x == y.(bool)
	case int:
		return x == y.(int)
	case int8:
		return x == y.(int8)
	case int16:
		return x == y.(int16)
	case int32:
		return x == y.(int32)
	case int64:
		return x == y.(int64)
	case uint:
		return x == y.(uint)
	case uint8:
		return x == y.(uint8)
	case uint16:
		return x == y.(uint16)
	case uint32:
		return x == y.(uint32)
	case uint64:
		return x == y.(uint64)
	case uintptr:
		return x == y.(uintptr)
	case float32:
		return x == y.(float32)
	case float64:
		return x == y.(float64)
	case complex64:
		return x == y.(complex64)
	case complex128:
		return x == y.(complex128)
	case string:
		switch y := y.(type) {
		case string:
			return x == y
		case sstr:
			return strEq(i, x, y)
		case opaqueStr:
			i.abort(abUnsupported, "comparison of an opaque (formatted) string")
		}
	case sstr:
		return strEq(i, x, y)
	case opaqueStr:
		if yo, ok := y.(opaqueStr); ok && yo.id == x.id {
			return true
		}
		i.abort(abUnsupported, "comparison of an opaque (formatted) string")
	case *value:
		return x == y.(*value)
	case *channel:
		return x == y.(*channel)
	case unsafe.Pointer:
		return x == y.(unsafe.Pointer)
	case structure:
		y := y.(structure)
		tStruct := t.Underlying().(*types.Struct)
		var acc value = true
		for k, n := 0, tStruct.NumFields(); k < n; k++ {
			if f := tStruct.Field(k); f.Name() != "_" {
				acc = i.and(acc, equalsV(i, f.Type(), x[k], y[k]))
				if acc == false {
					return false
				}
			}
		}
		return acc
	case array:
		y := y.(array)
		tElt := t.Underlying().(*types.Array).Elem()
		var acc value = true
		for k, xi := range x {
			acc = i.and(acc, equalsV(i, tElt, xi, y[k]))
			if acc == false {
				return false
			}
		}
		return acc
	case iface:
		y := y.(iface)
		if !sameType(x.t, y.t) {
			return false
		}
		if x.t == nil {
			return true
		}
		return equalsV(i, x.t, x.v, y.v)
	case rtype:
		return types.Identical(x.t, y.(rtype).t)
	case *omap:
		// only nil comparisons are legal
		return x == nil && y.(*omap) == nil
	}

	// Since map, func and slice don't support comparison, this
	// case is only reachable if one of x or y is literally nil
	// (handled in eqnil) or via interface{} values.
	panic(runtimeError(fmt.Sprintf("comparing uncomparable type %s", t)))
}

// load returns the value of type T in *addr.
func load(T types.Type, addr *value) value {
	switch T := T.Underlying().(type) {
	case *types.Struct:
		v := (*addr).(structure)
		a := make(structure, len(v))
		for i := range a {
			a[i] = load(T.Field(i).Type(), &v[i])
		}
		return a
	case *types.Array:
		v := (*addr).(array)
		a := make(array, len(v))
		for i := range a {
			a[i] = load(T.Elem(), &v[i])
		}
		return a
	default:
		return *addr
	}
}

// store stores value v of type T into *addr.
func store(T types.Type, addr *value, v value) {
	switch T := T.Underlying().(type) {
	case *types.Struct:
		lhs := (*addr).(structure)
		rhs := v.(structure)
		for i := range lhs {
			store(T.Field(i).Type(), &lhs[i], rhs[i])
		}
	case *types.Array:
		lhs := (*addr).(array)
		rhs := v.(array)
		for i := range lhs {
			store(T.Elem(), &lhs[i], rhs[i])
		}
	default:
		*addr = v
	}
}

// copyVal makes an unaliased copy of an aggregate value (structs and arrays are mutable
// containers in this representation).
func copyVal(v value) value {
	switch v := v.(type) {
	case structure:
		a := make(structure, len(v))
		for i := range v {
			a[i] = copyVal(v[i])
		}
		return a
	case array:
		a := make(array, len(v))
		for i := range v {
			a[i] = copyVal(v[i])
		}
		return a
	}
	return v
}

// Prints in the style of built-in println.
func writeValue(buf *bytes.Buffer, v value) {
	switch v := v.(type) {
	case nil, bool, int, int8, int16, int32, int64, uint, uint8, uint16, uint32, uint64, uintptr, float32, float64, complex64, complex128, string:
		fmt.Fprintf(buf, "%v", v)

	case *sym:
		fmt.Fprintf(buf, "<sym %s>", v.t.String())

	case sstr:
		buf.WriteString("<symbolic string len ")
		fmt.Fprintf(buf, "%d>", len(v.b))

	case opaqueStr:
		buf.WriteString("<formatted string>")

	case *omap:
		buf.WriteString("map[")
		if v != nil {
			for k := range v.keys {
				if k > 0 {
					buf.WriteString(" ")
				}
				writeValue(buf, v.keys[k])
				buf.WriteString(":")
				writeValue(buf, v.vals[k])
			}
		}
		buf.WriteString("]")

	case *channel:
		fmt.Fprintf(buf, "%p", v) // (an address)

	case *value:
		if v == nil {
			buf.WriteString("<nil>")
		} else {
			fmt.Fprintf(buf, "%p", v)
		}

	case iface:
		if v.t == nil {
			buf.WriteString("<nil>")
			return
		}
		fmt.Fprintf(buf, "(%s, ", v.t)
		writeValue(buf, v.v)
		buf.WriteString(")")

	case structure:
		buf.WriteString("{")
		for i, e := range v {
			if i > 0 {
				buf.WriteString(" ")
			}
			writeValue(buf, e)
		}
		buf.WriteString("}")

	case array:
		buf.WriteString("[")
		for i, e := range v {
			if i > 0 {
				buf.WriteString(" ")
			}
			writeValue(buf, e)
		}
		buf.WriteString("]")

	case []value:
		buf.WriteString("[")
		for i, e := range v {
			if i > 40 {
				buf.WriteString(" ...")
				break
			}
			if i > 0 {
				buf.WriteString(" ")
			}
			writeValue(buf, e)
		}
		buf.WriteString("]")

	case *ssa.Function, *ssa.Builtin, *closure:
		fmt.Fprintf(buf, "%p", v) // (an address)

	case rtype:
		buf.WriteString(v.t.String())

	case tuple:
		buf.WriteString("(")
		for i, e := range v {
			if i > 0 {
				buf.WriteString(", ")
			}
			writeValue(buf, e)
		}
		buf.WriteString(")")

	default:
		fmt.Fprintf(buf, "<%T>", v)
	}
}

func toString(v value) string {
	var b bytes.Buffer
	writeValue(&b, v)
	return b.String()
}

// ------------------------------------------------------------------------
// Maps: ordered association lists. Iteration order is insertion order.

type omap struct {
	keys []value
	vals []value
}

func (m *omap) len() int {
	if m == nil {
		return 0
	}
	return len(m.keys)
}

// find returns the index of key in m or -1. A comparison that depends on symbolic values
// forks the path.
func (m *omap) find(i *interpreter, kt types.Type, key value) int {
	if m == nil {
		return -1
	}
	if ifc, ok := key.(iface); ok && ifc.t != nil {
		if !types.Comparable(ifc.t) {
			panic(runtimeError(fmt.Sprintf("hash of unhashable type %s", ifc.t)))
		}
	}
	for k := range m.keys {
		if i.truth(equalsV(i, kt, m.keys[k], key)) {
			return k
		}
	}
	return -1
}

func (m *omap) insert(i *interpreter, kt types.Type, key, v value) {
	if k := m.find(i, kt, key); k >= 0 {
		m.vals[k] = v
		return
	}
	// NaN keys never compare equal and are always inserted, as in Go.
	m.keys = append(m.keys, key)
	m.vals = append(m.vals, v)
}

func (m *omap) delete(i *interpreter, kt types.Type, key value) {
	if k := m.find(i, kt, key); k >= 0 {
		m.keys = append(m.keys[:k:k], m.keys[k+1:]...)
		m.vals = append(m.vals[:k:k], m.vals[k+1:]...)
	}
}

type omapIter struct {
	keys, vals []value
	pos        int
}

func (it *omapIter) next() tuple {
	if it.pos >= len(it.keys) {
		return tuple{false, nil, nil}
	}
	k, v := it.keys[it.pos], it.vals[it.pos]
	it.pos++
	return tuple{true, k, v}
}

// ------------------------------------------------------------------------
// String iteration (concrete strings only)

type stringIter struct {
	s string
	i int
}

func (it *stringIter) next() tuple {
	okv := make(tuple, 3)
	if it.i >= len(it.s) {
		okv[0] = false
		return okv
	}
	for k, r := range it.s[it.i:] {
		_ = k
		okv[0] = true
		okv[1] = it.i
		okv[2] = r
		n := len(string(r))
		if r == 0xFFFD {
			// invalid byte or a real U+FFFD
			if len(it.s[it.i:]) >= 3 && it.s[it.i:it.i+3] == "�" {
				n = 3
			} else {
				n = 1
			}
		}
		it.i += n
		break
	}
	return okv
}
