// Workers: one interpreter + solver processes each; they pull path prefixes from the explorer.
package main

import (
	"fmt"
	"go/token"
	"go/types"
	"os"
	"runtime"
	"runtime/debug"
	"strings"
	"time"

	"golang.org/x/tools/go/ssa"
)

type harnessCfg struct {
	Prop       string
	Pkg        string // import path of the package under test
	Func       string // harness function name
	Tier       int    // 0 quick, 1 thorough
	Params     map[string]int64
	StepBudget int64
	DecBudget  int
	MaxPaths   int
	concLimit  int
	Timeout    time.Duration // per solver query
	Workers    int
	FP         bool // harness uses floating point: prefer cvc5
	TimeNow    string
	seed       int64
	Stall      bool
	TimeFixed  bool
	SymAddr    bool // object addresses are symbolic (alignment is explored)
	TimersMayFire bool // timers created with a finite duration may fire (forked)
	TimeBudget time.Duration // wall-clock budget for the exploration of one harness
}

func (c *harnessCfg) valLimit() int {
	if c.Tier == 1 {
		return 300
	}
	return 40
}

type worker struct {
	id             int
	ex             *explorer
	prog           *loadedProgram
	in             *interpreter
	ts             *TermStore
	z3             *Solver
	cvc5           *Solver
	validateModels bool
	poisoned       map[*ssa.Global]string
	depGlobals     map[*ssa.Global]*value // initialised once
	solverErrs     []string
	stubsUsed      map[string]bool
	opaqueCtr      int
}

func (w *worker) solverFor(pc []*Term) *Solver { return w.solverFor2(pc, nil) }

func (w *worker) solverFor2(pc []*Term, extra *Term) *Solver {
	fp := extra != nil && extra.hasFP
	if !fp {
		for _, c := range pc {
			if c.hasFP {
				fp = true
				break
			}
		}
	}
	if fp && w.cvc5 != nil {
		return w.cvc5
	}
	return w.z3
}

func newWorker(id int, ex *explorer, prog *loadedProgram) (*worker, error) {
	w := &worker{id: id, ex: ex, prog: prog, ts: NewTermStore(), validateModels: true,
		poisoned: map[*ssa.Global]string{}, stubsUsed: map[string]bool{}}
	var err error
	w.z3, err = NewSolver("z3", w.ts, ex.cfg.Timeout, 0)
	if err != nil {
		return nil, err
	}
	if ex.cfg.FP {
		w.cvc5, err = NewSolver("cvc5", w.ts, ex.cfg.Timeout, 1)
		if err != nil {
			return nil, err
		}
	}
	w.in = &interpreter{
		prog:      prog.prog,
		globals:   make(map[*ssa.Global]*value),
		sizes:     &types.StdSizes{WordSize: 8, MaxAlign: 8},
		ts:        w.ts,
		w:         w,
		funcsSeen: map[*ssa.Function]bool{},
	}
	rt := prog.prog.ImportedPackage("runtime")
	if rt == nil {
		return nil, fmt.Errorf("program does not include package runtime")
	}
	w.in.runtimeErrorString = rt.Type("errorString").Object().Type()
	w.initDeps()
	return w, nil
}

func (w *worker) close() {
	w.z3.Close()
	if w.cvc5 != nil {
		w.cvc5.Close()
	}
}

// initDeps allocates all globals and runs the initialisers of whitelisted dependency
// packages once. Globals of packages that are not initialised are poisoned.
func (w *worker) initDeps() {
	i := w.in
	for _, pkg := range i.prog.AllPackages() {
		for _, m := range pkg.Members {
			if g, ok := m.(*ssa.Global); ok {
				cell := zero(deref(g.Type()))
				i.globals[g] = &cell
			}
		}
	}
	i.initMode = true
	defer func() { i.initMode = false }()
	for _, pkg := range i.prog.AllPackages() {
		path := pkg.Pkg.Path()
		if w.prog.isTarget(path) {
			continue
		}
		if !initWhitelist[path] {
			for _, m := range pkg.Members {
				if g, ok := m.(*ssa.Global); ok && !strings.HasPrefix(g.Name(), "init$") {
					w.poisoned[g] = "package " + path + " is not initialised by the engine"
				}
			}
			continue
		}
	}
	// run whitelisted initialisers in dependency order: calling P.init runs its imports' init
	// first (guarded), and initFilter skips non-whitelisted packages.
	for _, pkg := range i.prog.AllPackages() {
		if initWhitelist[pkg.Pkg.Path()] && !w.prog.isTarget(pkg.Pkg.Path()) {
			w.runInit(pkg)
		}
	}
}

func (w *worker) runInit(pkg *ssa.Package) {
	i := w.in
	defer func() {
		if r := recover(); r != nil {
			// an initialiser that cannot be executed poisons the package's globals
			for _, m := range pkg.Members {
				if g, ok := m.(*ssa.Global); ok && !strings.HasPrefix(g.Name(), "init$") {
					if _, done := w.poisoned[g]; !done {
						w.poisoned[g] = fmt.Sprintf("initialiser of %s failed in the engine: %v", pkg.Pkg.Path(), r)
					}
				}
			}
			if os.Getenv("GOSYMEX_DEBUG") != "" {
				fmt.Fprintf(os.Stderr, "init of %s failed: %v\n", pkg.Pkg.Path(), r)
			}
		}
	}()
	i.initDirect = true
	call(i, nil, token.NoPos, pkg.Func("init"), nil)
}

// initTargets (re-)initialises the globals of the packages under test. Called per path.
func (w *worker) initTargets() {
	i := w.in
	i.initMode = true
	defer func() { i.initMode = false }()
	for _, pkg := range w.prog.targets {
		for _, m := range pkg.Members {
			if g, ok := m.(*ssa.Global); ok {
				*i.globals[g] = zero(deref(g.Type()))
			}
		}
	}
	for _, pkg := range w.prog.targets {
		i.initDirect = true
		call(i, nil, token.NoPos, pkg.Func("init"), nil)
	}
}

func (w *worker) loop() {
	for {
		it := w.ex.pop()
		if it == nil {
			return
		}
		w.runPath(it)
		w.ex.finish()
	}
}

func (w *worker) runPath(it *workItem) {
	ex := w.ex
	i := w.in
	cfg := ex.cfg
	p := &path{item: it, model: it.model, stepBudget: cfg.StepBudget, decBudget: cfg.DecBudget,
		reached: map[string]bool{}, tier: cfg.Tier, params: cfg.Params}
	if p.model == nil {
		p.model = Model{}
	}
	i.p = p
	i.steps = 0
	i.cur = nil
	i.threads = nil
	w.ts.NewGen()
	outcome := "ok"
	func() {
		defer func() {
			r := recover()
			if r == nil {
				return
			}
			i.killThreads()
			switch r := r.(type) {
			case pathAbort:
				switch r.kind {
				case abInfeasible:
					outcome = "infeasible"
				case abPruned:
					outcome = "pruned"
				case abStop:
					outcome = "violated"
				case abDeadlock:
					outcome = "violated"
				case abUnsupported, abSolver:
					outcome = "inconclusive"
					p.inconclusive = append(p.inconclusive, r.kind.String()+": "+r.msg)
				case abBudget:
					if cfg.Stall && !p.replaying() {
						// candidate non-termination: confirmed (or not) by the native replay's watchdog
						outcome = "violated"
						i.reportViolation("stall", "decoder does not return", "", r.msg, p.model)
					} else {
						outcome = "inconclusive"
						p.inconclusive = append(p.inconclusive, "unwinding failure: "+r.msg)
					}
				}
			case targetPanic, runtimeError:
				outcome = "violated"
				if !p.replaying() {
					i.reportViolation("panic", "unexpected panic", "", panicString(r), p.model)
				}
			case runtime.Error:
				msg := r.Error()
				if strings.Contains(msg, "interface conversion") || strings.Contains(msg, "nil map") {
					outcome = "inconclusive"
					p.inconclusive = append(p.inconclusive, "engine error: "+msg+"\n"+firstLines(string(debug.Stack()), 30))
				} else {
					outcome = "violated"
					if !p.replaying() {
						i.reportViolation("panic", "unexpected panic", "", panicString(r), p.model)
					}
				}
			default:
				outcome = "inconclusive"
				p.inconclusive = append(p.inconclusive, fmt.Sprintf("engine error: %v\n%s", r, firstLines(string(debug.Stack()), 30)))
			}
		}()
		w.initTargets()
		fn := w.prog.harnessFn(cfg.Func)
		i.runMain(fn)
		if p.replaying() {
			panic(fmt.Sprintf("replay divergence: path ended with %d of %d prefix decisions consumed", p.pos, len(p.item.prefix)))
		}
	}()
	if len(p.violations) > 0 && outcome == "ok" {
		outcome = "violated"
	}
	if outcome == "ok" {
		p.obsOK = true
		for k, vals := range p.obsVals {
			s, ok := w.in.formatObserve(p.obsTags[k], vals, p.model)
			if !ok {
				p.obsOK = false
				break
			}
			p.obsStrs = append(p.obsStrs, s)
		}
	}
	ex.merge(p, w, outcome, i.steps)
}

func firstLines(s string, n int) string {
	lines := strings.Split(s, "\n")
	// skip the frames of the recover machinery
	out := []string{}
	for _, l := range lines {
		if strings.Contains(l, "/verif/engine/") || strings.Contains(l, "gosymex/") {
			out = append(out, strings.TrimSpace(l))
			if len(out) >= n {
				break
			}
		}
	}
	return strings.Join(out, " <- ")
}

// packages whose initialisers are executed (tolerantly) by the engine
var initWhitelist = map[string]bool{
	"errors": true, "io": true, "bufio": true, "bytes": true, "strings": true,
	"unicode/utf8": true, "unicode": true, "encoding/binary": true, "sort": true, "math": true, "math/bits": true,
	"context": true, "strconv": true, "slices": true, "cmp": true, "container/list": true,
	"internal/byteorder": true, "internal/stringslite": true, "internal/bytealg": true,
	"internal/itoa": true, "io/ioutil": true, "unicode/utf16": true, "hash": true, "hash/crc32": false,
	"crypto/subtle": true, "crypto/cipher": true, "encoding/base64": true, "encoding/hex": true,
	"internal/oserror": true, "io/fs": false, "time": true, "sync": true, "sync/atomic": true,
	"compress/flate": true,
}
