package aac

// C07 (AAC): untrusted bytes never crash or stall the ADTS / AudioSpecificConfig decoders.
func HarnessC07_Aac() {
	max := 12
	if vTier() == 1 {
		max = 14 // (16: 1.5 million paths, unfinished after 25 minutes)
	}
	data := vBytes(vChoice(max + 1))
	a, _ := NewADTS()
	rest := data
	for i := 0; i < 3 && len(rest) > 0; i++ {
		raw, left, err := a.Decode(rest)
		if err != nil {
			break
		}
		_ = a.ASC().Object.String() + a.ASC().SampleRate.String() + a.ASC().Channels.String()
		_ = a.ASC().SampleRate.ToHz()
		_ = raw
		if len(left) >= len(rest) {
			vAssert(false, "Decode makes progress on the remainder")
		}
		rest = left
		vReach("c07-aac-frame")
	}
	var asc AudioSpecificConfig
	if asc.UnmarshalBinary(data) == nil {
		asc.MarshalBinary()
	}
	b, _ := NewADTS()
	if b.SetASC(data) == nil {
		b.Encode(data)
	}
	vAssert(true, "decoders returned")
	vReach("c07-aac")
}

// HarnessC07_AacEnums: enum helpers total over uint8.
func HarnessC07_AacEnums() {
	x := vU8()
	switch vChoice(5) {
	case 0:
		_ = ObjectType(x).String()
		_ = ObjectType(x).ToProfile().String()
	case 1:
		_ = Profile(x).String()
		_ = Profile(x).ToObjectType().String()
	case 2:
		_ = SampleRateIndex(x).String()
	case 3:
		_ = SampleRateIndex(x).ToHz()
	case 4:
		_ = Channels(x).String()
	}
	vAssert(true, "enum helper returned")
	vReach("c07-aac-enums")
}

// HarnessC07_AacLinear: decoding a stream of n, 2n, 4n ADTS frames (Decode repeated on the
// remainder) or one frame with a payload of n, 2n, 4n bytes: the work grows no faster than linearly.
func HarnessC07_AacLinear() {
	many := vChoice(2) == 0
	cost := func(n int) int {
		var data []byte
		frame := func(k int) {
			fl := 7 + k
			// syncword, MPEG-4, layer 0, no CRC; profile LC, 44.1 kHz, 2 channels; frame length fl
			data = append(data, 0xff, 0xf1, 0x50, byte(0x80|fl>>11&3), byte(fl>>3), byte(fl<<5)|0x1f, 0xfc)
			for i := 0; i < k; i++ {
				data = append(data, byte(i))
			}
		}
		if many {
			for i := 0; i < n; i++ {
				frame(2)
			}
		} else {
			k := n
			if k > 8000 {
				k = 8000
			}
			frame(k)
		}
		return vMeasure(func() {
			a, _ := NewADTS()
			rest := data
			for len(rest) > 0 {
				_, left, err := a.Decode(rest)
				vAssert(err == nil, "a well-formed ADTS stream decodes")
				if err != nil || len(left) >= len(rest) {
					break
				}
				rest = left
			}
		})
	}
	vLinear(cost, 48, 512, 1024, "ADTS decoding cost grows no faster than linearly with the input length")
	vReach("c07-aac-linear")
}
