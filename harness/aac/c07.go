package aac

// C07 (AAC): untrusted bytes never crash or stall the ADTS / AudioSpecificConfig decoders.
func HarnessC07_Aac() {
	max := 12
	if vTier() == 1 {
		max = 16
	}
	data := vBytes(vChoice(max + 1))
	a, _ := NewADTS()
	rest := data
	for i := 0; i < 3 && len(rest) > 0; i++ {
		raw, left, err := a.Decode(rest)
		if err != nil {
			break
		}
		_ = a.ASC().Object.String() + a.ASC().SampleRate.String() + a.ASC().Channels.String()
		_ = a.ASC().SampleRate.ToHz()
		_ = raw
		if len(left) >= len(rest) {
			vAssert(false, "Decode makes progress on the remainder")
		}
		rest = left
		vReach("c07-aac-frame")
	}
	var asc AudioSpecificConfig
	if asc.UnmarshalBinary(data) == nil {
		asc.MarshalBinary()
	}
	b, _ := NewADTS()
	if b.SetASC(data) == nil {
		b.Encode(data)
	}
	vAssert(true, "decoders returned")
	vReach("c07-aac")
}

// HarnessC07_AacEnums: enum helpers total over uint8.
func HarnessC07_AacEnums() {
	x := vU8()
	switch vChoice(5) {
	case 0:
		_ = ObjectType(x).String()
		_ = ObjectType(x).ToProfile().String()
	case 1:
		_ = Profile(x).String()
		_ = Profile(x).ToObjectType().String()
	case 2:
		_ = SampleRateIndex(x).String()
	case 3:
		_ = SampleRateIndex(x).ToHz()
	case 4:
		_ = Channels(x).String()
	}
	vAssert(true, "enum helper returned")
	vReach("c07-aac-enums")
}
