package aac

// C11: ADTS framing and AudioSpecificConfig round-trip and match the ISO layout.

// ISO 14496-3 1.6.2.1 fields of a two-byte AudioSpecificConfig.
func refASCFields(b0, b1 uint8) (obj, sr, ch uint8) {
	return b0 >> 3, (b0&7)<<1 | b1>>7, (b1 >> 3) & 0xf
}

func refASCValid(obj, sr, ch uint8) bool {
	okObj := vOr(vOr(obj == 1, obj == 2), vOr(obj == 3, vOr(obj == 5, obj == 29)))
	return vAnd(okObj, vAnd(vAnd(sr >= 1, sr <= 12), vAnd(ch >= 1, ch <= 7)))
}

// HarnessC11_ASC: all 65536 two-byte configs in one symbolic run.
func HarnessC11_ASC() {
	b := vBytes(2)
	var asc AudioSpecificConfig
	err := asc.UnmarshalBinary(b)
	obj, sr, ch := refASCFields(b[0], b[1])
	ok := refASCValid(obj, sr, ch)
	vObserve("asc", b, err == nil, uint8(asc.Object), uint8(asc.SampleRate), uint8(asc.Channels))
	vAssert((err == nil) == ok, "ASC accepted iff object/rate/channels valid")
	if err == nil {
		vAssert(vAnd(uint8(asc.Object) == obj, vAnd(uint8(asc.SampleRate) == sr, uint8(asc.Channels) == ch)), "ASC fields decoded per ISO 14496-3")
		out, e2 := asc.MarshalBinary()
		vAssert(e2 == nil, "accepted ASC marshals")
		if e2 == nil {
			vAssert(len(out) == 2, "ASC is two bytes")
			vAssert(vAnd(out[0] == b[0], out[1] == b[1]&0xf8), "ASC marshal is bit exact")
		}
		vReach("asc-accepted")
	} else {
		vReach("asc-rejected")
	}
}
