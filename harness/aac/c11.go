package aac

// C11: ADTS framing and AudioSpecificConfig round-trip and match the ISO layout.

// ISO 14496-3 1.6.2.1 fields of a two-byte AudioSpecificConfig.
func refASCFields(b0, b1 uint8) (obj, sr, ch uint8) {
	return b0 >> 3, (b0&7)<<1 | b1>>7, (b1 >> 3) & 0xf
}

func refASCValid(obj, sr, ch uint8) bool {
	okObj := vOr(vOr(obj == 1, obj == 2), vOr(obj == 3, vOr(obj == 5, obj == 29)))
	return vAnd(okObj, vAnd(vAnd(sr >= 1, sr <= 12), vAnd(ch >= 1, ch <= 7)))
}

// HarnessC11_ASC: all 65536 two-byte configs in one symbolic run.
func HarnessC11_ASC() {
	b := vBytes(2)
	var asc AudioSpecificConfig
	err := asc.UnmarshalBinary(b)
	obj, sr, ch := refASCFields(b[0], b[1])
	ok := refASCValid(obj, sr, ch)
	vObserve("asc", b, err == nil, uint8(asc.Object), uint8(asc.SampleRate), uint8(asc.Channels))
	vAssert((err == nil) == ok, "ASC accepted iff object/rate/channels valid")
	if err == nil {
		vAssert(vAnd(uint8(asc.Object) == obj, vAnd(uint8(asc.SampleRate) == sr, uint8(asc.Channels) == ch)), "ASC fields decoded per ISO 14496-3")
		out, e2 := asc.MarshalBinary()
		vAssert(e2 == nil, "accepted ASC marshals")
		if e2 == nil {
			vAssert(len(out) == 2, "ASC is two bytes")
			vAssert(vAnd(out[0] == b[0], out[1] == b[1]&0xf8), "ASC marshal is bit exact")
		}
		vReach("asc-accepted")
	} else {
		vReach("asc-rejected")
	}
}

// ISO/IEC 13818-7 Table 35.
var refAacHz = [13]int{96000, 88200, 64000, 48000, 44100, 32000, 24000, 22050, 16000, 12000, 11025, 8000, 7350}

// HarnessC11_ToHz: every sampling-frequency index converts to the ISO frequency; the
// conversion is total over the whole uint8 range (C07 clause for this enum).
func HarnessC11_ToHz() {
	v := SampleRateIndex(vU8())
	var hz int
	panicked := vExpectPanic(func() { hz = v.ToHz() })
	vAssert(!panicked, "SampleRateIndex.ToHz never panics")
	if !panicked && v <= 12 {
		vAssert(hz == refAacHz[v], "SampleRateIndex.ToHz equals the ISO table")
		vReach("tohz-defined")
	}
	vReach("tohz")
}

// validCfg draws an arbitrary configuration that the library's validate() accepts.
func validCfg() (obj ObjectType, sr SampleRateIndex, ch Channels) {
	obj, sr, ch = ObjectType(vU8()), SampleRateIndex(vU8()), Channels(vU8())
	vAssume(refASCValid(uint8(obj), uint8(sr), uint8(ch)))
	return
}

func refProfile(obj ObjectType) uint8 {
	// ADTS profile = audio object type - 1 for Main/LC/SSR; HE and HEv2 are carried as LC.
	return vIteU8(obj == 1, 0, vIteU8(obj == 3, 2, 1))
}

func rawLenChoices() []int {
	if vTier() == 0 {
		return []int{1, 2, 3, 24, 25, 248, 249, 2040, 2041, 8183, 8184}
	}
	return []int{1, 2, 3, 4, 5, 7, 8, 9, 15, 16, 17, 24, 25, 31, 32, 33, 63, 64, 65, 127, 128, 129, 248, 249, 255, 256, 257,
		511, 512, 513, 1016, 1017, 1023, 1024, 1025, 2040, 2041, 2047, 2048, 2049, 4088, 4089, 4095, 4096, 4097, 8176, 8177, 8183, 8184}
}

// symRaw builds a raw AAC frame of n bytes: every byte symbolic up to 16 bytes, beyond that
// symbolic bytes at the first, middle and last positions and concrete filler elsewhere.
func symRaw(n int) []byte {
	if n <= 16 {
		return vBytes(n)
	}
	raw := make([]byte, n)
	for i := range raw {
		raw[i] = byte(i*7 + 3)
	}
	raw[0], raw[1], raw[n/2], raw[n-2], raw[n-1] = vU8(), vU8(), vU8(), vU8(), vU8()
	return raw
}

// HarnessC11_EncDec: Encode then Decode returns the raw frame, nothing left, and the
// configuration's ADTS profile / index / channels; the bytes are the ISO header.
func HarnessC11_EncDec() {
	obj, sr, ch := validCfg()
	var n int
	if vTier() == 1 {
		// every raw length 1..512, then every multiple of 64 and its neighbours up to 8184
		if vChoice(2) == 0 {
			n = 1 + vChoice(256) + 256*vChoice(2)
		} else {
			n = 64*(8+vChoice(120)) + vChoice(3) - 1
		}
		if n > 8184 {
			vAssume(false)
		}
	} else {
		lens := rawLenChoices()
		n = lens[vChoice(len(lens))]
	}
	raw := symRaw(n)
	enc := &ADTSImpl{asc: AudioSpecificConfig{Object: obj, SampleRate: sr, Channels: ch}}
	data, err := enc.Encode(raw)
	vAssert(err == nil, "Encode accepts every valid configuration")
	if err != nil {
		return
	}
	vAssert(len(data) == n+7, "ADTS frame is 7 header bytes + raw")
	// ISO 13818-7 6.2 header as the library documents it (MPEG-2 id, no CRC, fullness 0x7ff)
	fl := uint16(n + 7)
	prof := refProfile(obj)
	hdrOK := vAnd(data[0] == 0xff, vAnd(data[1]&0xf6 == 0xf0, data[1]&1 == 1))
	hdrOK = vAnd(hdrOK, data[2] == prof<<6|uint8(sr)<<2|uint8(ch)>>2)
	hdrOK = vAnd(hdrOK, data[3]&0xc3 == uint8(ch)<<6|uint8(fl>>11))
	hdrOK = vAnd(hdrOK, vAnd(data[4] == uint8(fl>>3), data[5]&0xe0 == uint8(fl<<5)))
	hdrOK = vAnd(hdrOK, data[6]&3 == 0)
	vAssert(hdrOK, "encoded header fields follow ISO 13818-7 6.2")

	dec := &ADTSImpl{}
	got, left, err := dec.Decode(data)
	vAssert(err == nil, "Decode accepts the encoder's output")
	if err != nil {
		return
	}
	vAssert(len(left) == 0, "nothing left over")
	vAssert(vEqBytes(got, raw), "raw bytes identical")
	asc := dec.ASC()
	vAssert(vAnd(uint8(asc.Object.ToProfile()) == prof, vAnd(asc.SampleRate == sr, asc.Channels == ch)), "ASC() reports profile, index, channels")
	vReach("encdec")
}

// HarnessC11_Concat: a concatenation of frames decodes one frame at a time and the
// remainder always starts at the next sync word.
func HarnessC11_Concat() {
	k := 2
	if vTier() == 1 {
		k = 2 + vChoice(2)
	}
	var stream []byte
	var raws [][]byte
	var cfgs [][3]uint8
	for i := 0; i < k; i++ {
		obj, sr, ch := validCfg()
		n := 1 + vChoice(3) // (1-4 bytes with three frames did not finish within the thorough budget)
		raw := vBytes(n)
		enc := &ADTSImpl{asc: AudioSpecificConfig{Object: obj, SampleRate: sr, Channels: ch}}
		data, err := enc.Encode(raw)
		vAssert(err == nil, "Encode accepts every valid configuration")
		if err != nil {
			return
		}
		stream = append(stream, data...)
		raws = append(raws, raw)
		cfgs = append(cfgs, [3]uint8{refProfile(obj), uint8(sr), uint8(ch)})
	}
	dec := &ADTSImpl{}
	rest := stream
	for i := 0; i < k; i++ {
		got, left, err := dec.Decode(rest)
		vAssert(err == nil, "each frame of a concatenation decodes")
		if err != nil {
			return
		}
		vAssert(vEqBytes(got, raws[i]), "frame of a concatenation: raw identical")
		vAssert(len(left) == len(rest)-7-len(raws[i]), "remainder starts right after the frame")
		if len(left) >= 2 {
			vAssert(vAnd(left[0] == 0xff, left[1]&0xf0 == 0xf0), "remainder starts at the next sync word")
		}
		asc := dec.ASC()
		vAssert(vAnd(uint8(asc.Object.ToProfile()) == cfgs[i][0], vAnd(uint8(asc.SampleRate) == cfgs[i][1], uint8(asc.Channels) == cfgs[i][2])), "ASC() follows each frame")
		rest = left
	}
	vAssert(len(rest) == 0, "concatenation fully consumed")
	vReach("concat")
}

// refADTSWrite is an independent ISO/IEC 13818-7 6.2 ADTS writer: every header bit is a
// parameter. crc is present iff protectionAbsent == 0.
func refADTSWrite(id, protectionAbsent, profile, sfi, private, chcfg, original, home, cpBit, cpStart uint8, fullness uint16, nblocks uint8, crc [2]byte, raw []byte) []byte {
	hl := 7
	if protectionAbsent == 0 {
		hl = 9
	}
	fl := uint16(hl + len(raw))
	out := make([]byte, 0, int(fl))
	out = append(out, 0xff)
	out = append(out, 0xf0|id<<3|0<<1|protectionAbsent)
	out = append(out, profile<<6|sfi<<2|private<<1|chcfg>>2)
	out = append(out, (chcfg&3)<<6|original<<5|home<<4|cpBit<<3|cpStart<<2|uint8(fl>>11)&3)
	out = append(out, uint8(fl>>3))
	out = append(out, uint8(fl&7)<<5|uint8(fullness>>6)&0x1f)
	out = append(out, uint8(fullness&0x3f)<<2|nblocks&3)
	if protectionAbsent == 0 {
		out = append(out, crc[0], crc[1])
	}
	return append(out, raw...)
}

// HarnessC11_RefDecode: frames produced by the independent ISO writer (MPEG-2 or MPEG-4 id,
// with or without CRC, arbitrary private/copyright/home/fullness bits) decode to exactly
// their raw data block, with the remainder right after it.
func HarnessC11_RefDecode() {
	obj, sr, ch := validCfg()
	vAssume(vOr(obj == 1, vOr(obj == 2, obj == 3))) // ADTS profile field carries Main/LC/SSR
	id, pa := vU8()&1, vU8()&1
	priv, orig, home, cb, cs := vU8()&1, vU8()&1, vU8()&1, vU8()&1, vU8()&1
	full := vU16() & 0x7ff
	crc := [2]byte{vU8(), vU8()}
	n := 1 + vChoice(4)
	if vTier() == 1 {
		n = 1 + vChoice(12)
	}
	raw := vBytes(n)
	trail := vBytes(vChoice(3))
	frame := refADTSWrite(id, pa, uint8(obj)-1, uint8(sr), priv, uint8(ch), orig, home, cb, cs, full, 0, crc, raw)
	data := append(append([]byte(nil), frame...), trail...)
	dec := &ADTSImpl{}
	got, left, err := dec.Decode(data)
	vAssert(err == nil, "ISO-conformant frame is accepted")
	if err != nil {
		return
	}
	vAssert(len(got) == n, "raw block has frame_length minus header (minus CRC) bytes")
	if len(got) == n {
		vAssert(vEqBytes(got, raw), "raw block identical")
	}
	vAssert(len(left) == len(trail), "remainder starts right after the frame")
	if len(left) == len(trail) {
		vAssert(vEqBytes(left, trail), "remainder bytes untouched")
	}
	asc := dec.ASC()
	vAssert(vAnd(asc.Object == obj, vAnd(asc.SampleRate == sr, asc.Channels == ch)), "ASC() reports the header's configuration")
	if pa == 0 {
		vReach("refdecode-crc")
	} else {
		vReach("refdecode-nocrc")
	}
}
