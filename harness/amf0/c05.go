package amf0

import "math"

// C05/C06 tree generation: shapes fork, scalar contents are symbolic.

type genCtx struct {
	budget   int // remaining nodes
	maxDepth int
	maxProps int
	maxStr   int
	// concreteInStrict: contents below a strict array are concrete (used where the strict-array
	// layout deviation is already known and symbolic contents would only multiply paths)
	concreteInStrict bool
	inStrict         int
	// concrete: all scalar contents are fixed values (structure-only exploration)
	concrete bool
}

func newGen() *genCtx {
	if vTier() == 1 {
		return &genCtx{budget: 4, maxDepth: 3, maxProps: 2, maxStr: 1}
	}
	return &genCtx{budget: 3, maxDepth: 2, maxProps: 2, maxStr: 1}
}

func (g *genCtx) str(boundary bool) string {
	if g.concrete || g.concreteInStrict && g.inStrict > 0 {
		return []string{"", "k"}[vChoice(2)]
	}
	if boundary && vTier() == 1 && vChoice(4) == 0 {
		n := []int{255, 256, 65535}[vChoice(3)]
		b := vPattern(n, 65)
		b[0], b[n-1] = vU8(), vU8()
		return string(b)
	}
	return vStr(vChoice(g.maxStr + 1))
}

// gen builds a library value through the public constructors together with its model.
func (g *genCtx) gen(depth int) (Amf0, *refVal) {
	g.budget--
	kinds := 5
	if depth < g.maxDepth && g.budget > 0 {
		kinds = 8
	}
	switch vChoice(kinds) {
	case 0:
		bits := vU64()
		if g.concrete || g.concreteInStrict && g.inStrict > 0 {
			vAssume(bits == 0x3ff8000000000000)
		}
		return NewNumber(math.Float64frombits(bits)), &refVal{kind: 0, num: bits}
	case 1:
		b := vBool()
		if g.concrete || g.concreteInStrict && g.inStrict > 0 {
			vAssume(b)
		}
		tb := vU8() // the byte an independent encoder uses for true: any non-zero value
		vAssume(tb != 0)
		if g.concrete || g.concreteInStrict && g.inStrict > 0 {
			vAssume(tb == 1)
		}
		return NewBoolean(b), &refVal{kind: 1, b: b, tb: tb}
	case 2:
		s := g.str(true)
		return NewString(s), &refVal{kind: 2, s: s}
	case 3:
		return NewNull(), &refVal{kind: 5}
	case 4:
		return NewUndefined(), &refVal{kind: 6}
	case 5:
		o := NewObject()
		r := &refVal{kind: 3}
		g.props(depth, r, func(k string, v Amf0) { o.Set(k, v) })
		return o, r
	case 6:
		o := NewEcmaArray()
		r := &refVal{kind: 8}
		g.props(depth, r, func(k string, v Amf0) { o.Set(k, v) })
		return o, r
	default:
		o := NewStrictArray()
		r := &refVal{kind: 10}
		g.inStrict++
		g.props(depth, r, func(k string, v Amf0) { o.Set(k, v) })
		g.inStrict--
		return o, r
	}
}

func (g *genCtx) props(depth int, r *refVal, set func(string, Amf0)) {
	n := vChoice(g.maxProps + 1)
	for i := 0; i < n && g.budget > 0; i++ {
		k := g.str(false)
		// keys of one container are pairwise distinct (Set replaces an existing key)
		for _, prev := range r.keys {
			if len(prev) == len(k) {
				vAssume(vNot(vEqStr(prev, k)))
			}
		}
		v, m := g.gen(depth + 1)
		set(k, v)
		r.keys = append(r.keys, k)
		r.vals = append(r.vals, m)
	}
}

// HarnessC05_Tree: marshal yields exactly Size() bytes, unmarshal yields an equal tree with
// the keys in the original order, re-marshal reproduces the bytes.
func HarnessC05_Tree() {
	g := newGen()
	a, r := g.gen(0)
	data, err := a.MarshalBinary()
	vAssert(err == nil, "marshal succeeds")
	if err != nil {
		return
	}
	vAssert(len(data) == a.Size(), "marshal yields exactly Size() bytes")
	b, err := Discovery(data)
	vAssert(err == nil, "Discovery accepts the library's own encoding")
	if err != nil {
		return
	}
	err = b.UnmarshalBinary(data)
	vAssert(err == nil, "unmarshal accepts the library's own encoding")
	if err != nil {
		return
	}
	vAssert(matches(b, r, true), "unmarshal(marshal(tree)) equals the tree, keys in order")
	vAssert(b.Size() == len(data), "Size() of the decoded tree equals the bytes consumed")
	again, err := b.MarshalBinary()
	vAssert(err == nil, "re-marshal succeeds")
	if err == nil {
		vAssert(len(again) == len(data), "re-marshal length")
		if len(again) == len(data) {
			vAssert(vEqBytes(again, data), "re-marshal reproduces the bytes")
		}
	}
	vReach("tree")
}

func bytesBound() int {
	if vTier() == 1 {
		return 12
	}
	return 10
}

// HarnessC05_Bytes: for every byte string that decodes successfully, Size() afterwards
// equals the number of bytes the encoding occupies (reference decoder following the same
// grammar), so advancing by Size() stays aligned - including repeated keys, empty keys and
// trailing bytes.
func HarnessC05_Bytes() {
	n := 1 + vChoice(bytesBound())
	data := vBytes(n)
	a, err := Discovery(data)
	if err != nil {
		vReach("bytes-rejected")
		return
	}
	if err = a.UnmarshalBinary(data); err != nil {
		vReach("bytes-rejected")
		return
	}
	if _, isEOF := a.(*objectEOF); isEOF {
		return // a bare object-end marker is not a value
	}
	_, used, ok := refDecode(data, true, 0)
	vAssert(ok, "what the library decodes is an encoding under the AMF0 grammar")
	if !ok {
		return
	}
	vAssert(a.Size() == used, "Size() after decoding equals the bytes consumed")
	vReach("bytes-accepted")
}

// HarnessC05_DupKeys: encodings with repeated keys (and empty keys, trailing bytes) in each
// container kind, written by the reference encoder in the library's layout: after a
// successful decode Size() equals the bytes the encoding occupies and re-marshalling
// reproduces them.
func HarnessC05_DupKeys() {
	kind := []uint8{3, 8, 10}[vChoice(3)]
	r := &refVal{kind: kind}
	n := 2 + vChoice(2)
	for i := 0; i < n; i++ {
		r.keys = append(r.keys, vStr(vChoice(2)))
		switch vChoice(3) {
		case 0:
			r.vals = append(r.vals, &refVal{kind: 5})
		case 1:
			r.vals = append(r.vals, &refVal{kind: 1, b: vBool()})
		case 2:
			r.vals = append(r.vals, &refVal{kind: 2, s: vStr(vChoice(2))})
		}
	}
	enc := refEncode(r, true)
	data := append(append([]byte(nil), enc...), vBytes(vChoice(3))...)
	a, err := Discovery(data)
	vAssert(err == nil, "Discovery accepts the container")
	if err != nil {
		return
	}
	err = a.UnmarshalBinary(data)
	vAssert(err == nil, "a container with repeated or empty keys decodes")
	if err != nil {
		return
	}
	vAssert(a.Size() == len(enc), "Size() after decoding equals the bytes consumed (repeated keys included)")
	out, err := a.MarshalBinary()
	vAssert(err == nil, "re-marshal succeeds")
	if err == nil && kind != 8 {
		vAssert(len(out) == len(enc), "re-marshal has the consumed length")
		if len(out) == len(enc) {
			vAssert(vEqBytes(out, enc), "re-marshal reproduces the consumed bytes")
		}
	}
	vReach("dupkeys")
}

// leaf builds a scalar value with its model.
func c05Leaf() (Amf0, *refVal) {
	switch vChoice(3) {
	case 0:
		bits := vU64()
		return NewNumber(math.Float64frombits(bits)), &refVal{kind: 0, num: bits}
	case 1:
		b := vBool()
		return NewBoolean(b), &refVal{kind: 1, b: b, tb: 1}
	default:
		s := vStr(vChoice(2))
		return NewString(s), &refVal{kind: 2, s: s}
	}
}

// HarnessC05_History: the round trip holds along a history, not only for a fresh value:
// a container is marshalled, the bytes are decoded, the decoded value is extended through Set,
// marshalled and decoded again; meanwhile another value is marshalled, and the bytes obtained
// earlier still decode to the value they were made from.
func HarnessC05_History() {
	kind := []uint8{3, 8, 10}[vChoice(3)]
	var a Amf0
	var set func(string, Amf0)
	mk := func() (Amf0, func(string, Amf0)) {
		switch kind {
		case 3:
			o := NewObject()
			return o, func(k string, v Amf0) { o.Set(k, v) }
		case 8:
			o := NewEcmaArray()
			return o, func(k string, v Amf0) { o.Set(k, v) }
		default:
			o := NewStrictArray()
			return o, func(k string, v Amf0) { o.Set(k, v) }
		}
	}
	a, set = mk()
	r := &refVal{kind: kind}
	n := vChoice(3)
	keys := []string{"a", "b", "c", "d"}
	for i := 0; i < n; i++ {
		v, m := c05Leaf()
		set(keys[i], v)
		r.keys, r.vals = append(r.keys, keys[i]), append(r.vals, m)
	}
	d1, err := a.MarshalBinary()
	vAssert(err == nil, "marshal succeeds")
	if err != nil {
		return
	}
	// another value is marshalled while the caller still holds d1
	other, _ := mk()
	if ov, ok := other.(interface{ Set(string, Amf0) *objectBase }); ok {
		ov.Set("zz", NewString("other"))
	}
	d2, err := other.MarshalBinary()
	vAssert(err == nil && len(d2) == other.Size(), "marshal of a second value yields Size() bytes")
	// d1 still decodes to the first value
	b, err := Discovery(d1)
	vAssert(err == nil, "Discovery accepts the bytes marshalled earlier")
	if err != nil {
		return
	}
	err = b.UnmarshalBinary(d1)
	vAssert(err == nil, "the bytes marshalled earlier still decode")
	if err != nil {
		return
	}
	vAssert(matches(b, r, true), "the bytes marshalled earlier still decode to the value they were made from")
	vAssert(b.Size() == len(d1), "Size() of the decoded value equals the bytes consumed")
	// extend the decoded value and go round again
	var bset func(string, Amf0)
	switch x := b.(type) {
	case *Object:
		bset = func(k string, v Amf0) { x.Set(k, v) }
	case *EcmaArray:
		bset = func(k string, v Amf0) { x.Set(k, v) }
	case *StrictArray:
		bset = func(k string, v Amf0) { x.Set(k, v) }
	default:
		vAssert(false, "decoded value has the container type")
		return
	}
	extra := 1 + vChoice(2)
	for i := 0; i < extra; i++ {
		v, m := c05Leaf()
		bset(keys[n+i], v)
		r.keys, r.vals = append(r.keys, keys[n+i]), append(r.vals, m)
	}
	d3, err := b.MarshalBinary()
	vAssert(err == nil, "marshal of the extended value succeeds")
	if err != nil {
		return
	}
	vAssert(len(d3) == b.Size(), "marshal of the extended value yields exactly Size() bytes")
	c, err := Discovery(d3)
	vAssert(err == nil, "Discovery accepts the extended value")
	if err != nil {
		return
	}
	err = c.UnmarshalBinary(d3)
	vAssert(err == nil, "the extended value decodes")
	if err != nil {
		return
	}
	vAssert(matches(c, r, true), "unmarshal(marshal(extended value)) equals the extended value")
	vAssert(c.Size() == len(d3), "Size() of the decoded extended value equals the bytes consumed")
	vReach("history")
}
