package amf0

// C06: the wire format is the one defined by the AMF0 specification.

// HarnessC06_LibToRef: bytes the library produces are decoded to the same value by the
// independent decoder.
func HarnessC06_LibToRef() {
	g := newGen()
	a, r := g.gen(0)
	data, err := a.MarshalBinary()
	vAssert(err == nil, "marshal succeeds")
	if err != nil {
		return
	}
	want := refEncode(r, false)
	if hasNonEmptyStrict(r) {
		same := len(data) == len(want)
		if same {
			same = vEqBytes(data, want)
		}
		vKnown("KF-C06-strictarray", same, "strict array elements are encoded as values without keys (AMF0 2.12)")
		vReach("lib-to-ref-strict")
		return
	}
	v, used, ok := refDecode(data, false, 0)
	vAssert(ok, "independent decoder accepts the library's bytes")
	if ok {
		vAssert(used == len(data), "independent decoder consumes all bytes")
		vAssert(matches(a, v, false), "independent decoder reads the same value")
	}
	vReach("lib-to-ref")
}

// HarnessC06_RefToLib: any specification-conformant encoding of a supported value is decoded
// by the library to that value.
func HarnessC06_RefToLib() {
	g := newGen()
	g.concreteInStrict = true
	_, r := g.gen(0)
	data := refEncode(r, false)
	a, err := Discovery(data)
	vAssert(err == nil, "Discovery accepts a specification-conformant encoding")
	if err != nil {
		return
	}
	err = a.UnmarshalBinary(data)
	if hasNonEmptyStrict(r) {
		ok := err == nil
		if ok {
			ok = matches(a, r, false)
		}
		vKnown("KF-C06-strictarray", ok, "specification-conformant strict array (count + values, no keys) decodes to its elements")
		vReach("ref-to-lib-strict")
		return
	}
	vAssert(err == nil, "library decodes a specification-conformant encoding")
	if err != nil {
		return
	}
	vAssert(matches(a, r, false), "library decodes the specification encoding to the same value")
	vAssert(a.Size() == len(data), "Size() equals the encoding's length")
	vReach("ref-to-lib")
}

// HarnessC06_Markers: all 256 marker bytes. Supported markers give the right type; every
// other marker is an error, never a value.
func HarnessC06_Markers() {
	m := vU8()
	rest := vBytes(vChoice(3))
	a, err := Discovery(append([]byte{m}, rest...))
	supported := vOr(vOr(m == 0, m == 1), vOr(vOr(m == 2, m == 3), vOr(vOr(m == 5, m == 6), vOr(m == 8, m == 10))))
	if m == 9 {
		// the object-end marker is recognised by Discovery (it only has meaning after an empty key)
		vAssert(err == nil, "object-end marker is recognised")
		vReach("marker-eof")
		return
	}
	vAssert((err == nil) == supported, "Discovery succeeds exactly for the supported markers")
	if err == nil {
		vAssert(uint8(a.amf0Marker()) == m, "Discovery returns the type of the marker")
		vReach("marker-supported")
	} else {
		vAssert(a == nil, "unsupported marker yields no value")
		vReach("marker-unsupported")
	}
}

// HarnessC06_LongStrings: strings and property names at the 8/16-bit length boundaries, both
// directions against the reference codec.
func HarnessC06_LongStrings() {
	n := []int{255, 256, 257, 65535}[vChoice(4)]
	b := vPattern(n, 97)
	b[0], b[n/2], b[n-1] = vU8(), vU8(), vU8()
	str := string(b)
	var r *refVal
	var a Amf0
	if vChoice(2) == 0 {
		r = &refVal{kind: 2, s: str}
		a = NewString(str)
	} else {
		r = &refVal{kind: 3, keys: []string{str}, vals: []*refVal{{kind: 5}}}
		o := NewObject()
		o.Set(str, NewNull())
		a = o
	}
	want := refEncode(r, false)
	got, err := a.MarshalBinary()
	vAssert(err == nil, "long string marshals")
	if err == nil {
		vAssert(len(got) == len(want), "long string: library encoding has the specification's length")
		if len(got) == len(want) {
			vAssert(vEqBytes(got, want), "long string: library encoding equals the specification encoding")
		}
	}
	back, err := Discovery(want)
	vAssert(err == nil, "long string: Discovery accepts the specification encoding")
	if err != nil {
		return
	}
	err = back.UnmarshalBinary(want)
	vAssert(err == nil, "long string: library decodes the specification encoding")
	if err == nil {
		vAssert(matches(back, r, false), "long string: decoded value equals the encoded one")
		vAssert(back.Size() == len(want), "long string: Size() equals the encoding's length")
	}
	vReach("longstrings")
}

// HarnessC06_RefDupKeys: a conformant encoder may repeat a key inside an object or ECMA array;
// the library decodes every property, in order, and stays aligned.
func HarnessC06_RefDupKeys() {
	kind := []uint8{3, 8}[vChoice(2)]
	r := &refVal{kind: kind}
	n := 2 + vChoice(2)
	for i := 0; i < n; i++ {
		r.keys = append(r.keys, vStr(vChoice(2)))
		if vChoice(2) == 0 {
			r.vals = append(r.vals, &refVal{kind: 5})
		} else {
			b := vBool()
			r.vals = append(r.vals, &refVal{kind: 1, b: b, tb: 1})
		}
	}
	// an empty key followed by anything but the end marker is a property; an empty key directly
	// before the end marker would be the terminator itself, so the last key is not empty
	vAssume(len(r.keys[n-1]) > 0)
	outer := &refVal{kind: 3, keys: []string{"o", "z"}, vals: []*refVal{r, {kind: 6}}}
	data := refEncode(outer, false)
	a, err := Discovery(data)
	vAssert(err == nil, "Discovery accepts the encoding")
	if err != nil {
		return
	}
	err = a.UnmarshalBinary(data)
	vAssert(err == nil, "library decodes a conformant encoding with repeated keys")
	if err != nil {
		return
	}
	vAssert(matches(a, outer, false), "every property is decoded, in order, and the value after the container is still aligned")
	vAssert(a.Size() == len(data), "Size() equals the encoding's length")
	vReach("ref-dupkeys")
}
