package amf0

// C07 (AMF0): untrusted bytes never crash or stall the decoder; the harness has no assertion
// other than "returns": any panic or non-termination on any path is the violation.
func HarnessC07_Amf0() {
	n := vChoice(bytesBound() + 1)
	data := vBytes(n)
	a, err := Discovery(data)
	if err == nil {
		err = a.UnmarshalBinary(data)
		if err == nil {
			_ = a.Size()
			vReach("c07-amf0-accepted")
		}
	}
	// every concrete type's decoder, whatever the marker says
	switch vChoice(8) {
	case 0:
		NewNumber(0).UnmarshalBinary(data)
	case 1:
		NewBoolean(false).UnmarshalBinary(data)
	case 2:
		NewString("").UnmarshalBinary(data)
	case 3:
		NewObject().UnmarshalBinary(data)
	case 4:
		NewEcmaArray().UnmarshalBinary(data)
	case 5:
		NewStrictArray().UnmarshalBinary(data)
	case 6:
		NewNull().UnmarshalBinary(data)
	case 7:
		(&objectEOF{}).UnmarshalBinary(data)
	}
	vAssert(true, "decoder returned")
	vReach("c07-amf0")
}

// HarnessC07_Amf0Enums: marker.String() is total over uint8.
func HarnessC07_Amf0Enums() {
	m := marker(vU8())
	s := m.String()
	vAssert(len(s) > 0, "marker.String() returns a name for every value")
	vReach("c07-amf0-enums")
}

// HarnessC07_Amf0Truncated: the encoding of a nested container cut at every offset never
// crashes the decoder - the parent advances by the child's Size(), which must never exceed
// what the child consumed.
func HarnessC07_Amf0Truncated() {
	kinds := []uint8{3, 8, 10}
	leaf := func() *refVal {
		switch vChoice(4) {
		case 0:
			return &refVal{kind: 5}
		case 1:
			return &refVal{kind: 1, b: true, tb: 1}
		case 2:
			return &refVal{kind: 0, num: 0x3ff0000000000000}
		}
		return &refVal{kind: 2, s: "s"}
	}
	inner := &refVal{kind: kinds[vChoice(3)], keys: []string{"k"}, vals: []*refVal{leaf()}}
	outer := &refVal{kind: kinds[vChoice(3)], keys: []string{"a"}, vals: []*refVal{inner}}
	if vChoice(2) == 1 {
		outer.keys = append(outer.keys, "z")
		outer.vals = append(outer.vals, leaf())
	}
	enc := refEncode(outer, true)
	cut := vChoice(len(enc) + 1)
	data := enc[:cut]
	a, err := Discovery(data)
	if err == nil {
		if a.UnmarshalBinary(data) == nil {
			_ = a.Size()
			a.MarshalBinary()
			vReach("c07-amf0-trunc-accepted")
		}
	}
	vAssert(true, "decoder returned")
	vReach("c07-amf0-trunc")
}
