package amf0

// C07 (AMF0): untrusted bytes never crash or stall the decoder; the harness has no assertion
// other than "returns": any panic or non-termination on any path is the violation.
func HarnessC07_Amf0() {
	n := vChoice(bytesBound() + 1)
	data := vBytes(n)
	a, err := Discovery(data)
	if err == nil {
		err = a.UnmarshalBinary(data)
		if err == nil {
			_ = a.Size()
			vReach("c07-amf0-accepted")
		}
	}
	// every concrete type's decoder, whatever the marker says
	switch vChoice(8) {
	case 0:
		NewNumber(0).UnmarshalBinary(data)
	case 1:
		NewBoolean(false).UnmarshalBinary(data)
	case 2:
		NewString("").UnmarshalBinary(data)
	case 3:
		NewObject().UnmarshalBinary(data)
	case 4:
		NewEcmaArray().UnmarshalBinary(data)
	case 5:
		NewStrictArray().UnmarshalBinary(data)
	case 6:
		NewNull().UnmarshalBinary(data)
	case 7:
		(&objectEOF{}).UnmarshalBinary(data)
	}
	vAssert(true, "decoder returned")
	vReach("c07-amf0")
}

// HarnessC07_Amf0Enums: marker.String() is total over uint8.
func HarnessC07_Amf0Enums() {
	m := marker(vU8())
	s := m.String()
	vAssert(len(s) > 0, "marker.String() returns a name for every value")
	vReach("c07-amf0-enums")
}

// HarnessC07_Amf0Truncated: the encoding of a nested container cut at every offset never
// crashes the decoder - the parent advances by the child's Size(), which must never exceed
// what the child consumed.
func HarnessC07_Amf0Truncated() {
	kinds := []uint8{3, 8, 10}
	leaf := func() *refVal {
		switch vChoice(4) {
		case 0:
			return &refVal{kind: 5}
		case 1:
			return &refVal{kind: 1, b: true, tb: 1}
		case 2:
			return &refVal{kind: 0, num: 0x3ff0000000000000}
		}
		return &refVal{kind: 2, s: "s"}
	}
	inner := &refVal{kind: kinds[vChoice(3)], keys: []string{"k"}, vals: []*refVal{leaf()}}
	outer := &refVal{kind: kinds[vChoice(3)], keys: []string{"a"}, vals: []*refVal{inner}}
	if vChoice(2) == 1 {
		outer.keys = append(outer.keys, "z")
		outer.vals = append(outer.vals, leaf())
	}
	enc := refEncode(outer, true)
	cut := vChoice(len(enc) + 1)
	data := enc[:cut]
	a, err := Discovery(data)
	if err == nil {
		if a.UnmarshalBinary(data) == nil {
			_ = a.Size()
			a.MarshalBinary()
			vReach("c07-amf0-trunc-accepted")
		}
	}
	vAssert(true, "decoder returned")
	vReach("c07-amf0-trunc")
}

// HarnessC07_Amf0Linear: decoding time grows no faster than linearly with the input length.
// Inputs of three sizes n, 2n, 4n and four shapes (objects / ECMA arrays / strict arrays nested
// n deep, one object with n properties; leaf number symbolic), written by hand in the library's
// layout. The cost of Discovery + UnmarshalBinary is measured by vCost (engine: instructions
// interpreted + elements copied; native replay: wall time, best of 3, at a size where one decode
// takes milliseconds). For a linear decoder the increments satisfy
// cost(4n)-cost(2n) = 2 (cost(2n)-cost(n)); a quadratic one gives a factor of 4. Wall time is
// noisy, so the native confirmation uses the coarser cost(4n) <= 9 cost(n) (linear: 4, quadratic: 16).
func HarnessC07_Amf0Linear() {
	kind := vChoice(4)
	leaf := vU64()
	build := func(n int) []byte {
		num := []byte{0, byte(leaf >> 56), byte(leaf >> 48), byte(leaf >> 40), byte(leaf >> 32), byte(leaf >> 24), byte(leaf >> 16), byte(leaf >> 8), byte(leaf)}
		var b []byte
		if kind == 3 {
			b = append(b, 3)
			for i := 0; i < n; i++ {
				b = append(b, 0, 3, byte('a'+i%26), byte('a'+i/26%26), byte('a'+i/676%26), 5)
			}
			b = append(b, 0, 4, 'l', 'e', 'a', 'f')
			b = append(b, num...)
			return append(b, 0, 0, 9)
		}
		for i := 0; i < n; i++ {
			switch kind {
			case 0:
				b = append(b, 3, 0, 1, 'a')
			case 1:
				b = append(b, 8, 0, 0, 0, 1, 0, 1, 'a')
			default:
				b = append(b, 10, 0, 0, 0, 1, 0, 1, 'a') // the library's strict array carries keys
			}
		}
		b = append(b, num...)
		if kind != 2 {
			for i := 0; i < n; i++ {
				b = append(b, 0, 0, 9)
			}
		}
		return b
	}
	cost := func(n int) int {
		data := build(n)
		return vMeasure(func() {
			a, err := Discovery(data)
			if err == nil {
				err = a.UnmarshalBinary(data)
			}
			vAssert(err == nil, "a well-formed encoding decodes")
		})
	}
	vLinear(cost, 32, 512, 8192, "decoding cost grows no faster than linearly with the input length (cost(4n)-cost(2n) <= 2.5 (cost(2n)-cost(n)))")
	vReach("c07-amf0-linear")
}
