package amf0

// C07 (AMF0): untrusted bytes never crash or stall the decoder; the harness has no assertion
// other than "returns": any panic or non-termination on any path is the violation.
func HarnessC07_Amf0() {
	n := vChoice(bytesBound() + 1)
	data := vBytes(n)
	a, err := Discovery(data)
	if err == nil {
		err = a.UnmarshalBinary(data)
		if err == nil {
			_ = a.Size()
			vReach("c07-amf0-accepted")
		}
	}
	// every concrete type's decoder, whatever the marker says
	switch vChoice(8) {
	case 0:
		NewNumber(0).UnmarshalBinary(data)
	case 1:
		NewBoolean(false).UnmarshalBinary(data)
	case 2:
		NewString("").UnmarshalBinary(data)
	case 3:
		NewObject().UnmarshalBinary(data)
	case 4:
		NewEcmaArray().UnmarshalBinary(data)
	case 5:
		NewStrictArray().UnmarshalBinary(data)
	case 6:
		NewNull().UnmarshalBinary(data)
	case 7:
		(&objectEOF{}).UnmarshalBinary(data)
	}
	vAssert(true, "decoder returned")
	vReach("c07-amf0")
}

// HarnessC07_Amf0Enums: marker.String() is total over uint8.
func HarnessC07_Amf0Enums() {
	m := marker(vU8())
	s := m.String()
	vAssert(len(s) > 0, "marker.String() returns a name for every value")
	vReach("c07-amf0-enums")
}
