package amf0

import "math"

// Reference model of AMF0 values and an independent codec written from amf0_spec_121207
// (sections 2.2-2.12). kind is the marker of the value.
type refVal struct {
	kind uint8
	num  uint64 // IEEE-754 bits of a number
	b    bool
	s    string
	keys []string
	vals []*refVal
	cnt  uint32 // ECMA array count hint as read
	tb   uint8  // byte a conformant encoder writes for true (any non-zero value; 0 means 1)
}

func refEncStr(s string) []byte {
	return append([]byte{byte(len(s) >> 8), byte(len(s))}, s...)
}

// refEncode: specification encoding. A strict array is a 32-bit count followed by the values
// (no keys). keyedStrict selects the library's own layout (key + value per element).
func refEncode(v *refVal, keyedStrict bool) []byte {
	switch v.kind {
	case 0:
		n := v.num
		return []byte{0, byte(n >> 56), byte(n >> 48), byte(n >> 40), byte(n >> 32), byte(n >> 24), byte(n >> 16), byte(n >> 8), byte(n)}
	case 1:
		if v.b {
			if v.tb != 0 {
				return []byte{1, v.tb}
			}
			return []byte{1, 1}
		}
		return []byte{1, 0}
	case 2:
		return append([]byte{2}, refEncStr(v.s)...)
	case 5:
		return []byte{5}
	case 6:
		return []byte{6}
	case 3, 8:
		out := []byte{v.kind}
		if v.kind == 8 {
			n := uint32(len(v.keys))
			out = append(out, byte(n>>24), byte(n>>16), byte(n>>8), byte(n))
		}
		for i := range v.keys {
			out = append(out, refEncStr(v.keys[i])...)
			out = append(out, refEncode(v.vals[i], keyedStrict)...)
		}
		return append(out, 0, 0, 9)
	case 10:
		n := uint32(len(v.vals))
		out := []byte{10, byte(n >> 24), byte(n >> 16), byte(n >> 8), byte(n)}
		for i := range v.vals {
			if keyedStrict {
				out = append(out, refEncStr(v.keys[i])...)
			}
			out = append(out, refEncode(v.vals[i], keyedStrict)...)
		}
		return out
	}
	panic("refEncode: kind")
}

// refDecode reads one value from b per the specification grammar and returns it with the
// number of bytes it occupies. ok=false: not a (supported, complete) encoding.
func refDecode(b []byte, keyedStrict bool, depth int) (v *refVal, n int, ok bool) {
	if len(b) < 1 || depth > 6 {
		return nil, 0, false
	}
	switch b[0] {
	case 0:
		if len(b) < 9 {
			return nil, 0, false
		}
		bits := uint64(b[1])<<56 | uint64(b[2])<<48 | uint64(b[3])<<40 | uint64(b[4])<<32 | uint64(b[5])<<24 | uint64(b[6])<<16 | uint64(b[7])<<8 | uint64(b[8])
		return &refVal{kind: 0, num: bits}, 9, true
	case 1:
		if len(b) < 2 {
			return nil, 0, false
		}
		return &refVal{kind: 1, b: b[1] != 0}, 2, true
	case 2:
		if len(b) < 3 {
			return nil, 0, false
		}
		l := int(b[1])<<8 | int(b[2])
		if len(b) < 3+l {
			return nil, 0, false
		}
		return &refVal{kind: 2, s: string(b[3 : 3+l])}, 3 + l, true
	case 5:
		return &refVal{kind: 5}, 1, true
	case 6:
		return &refVal{kind: 6}, 1, true
	case 3, 8:
		v = &refVal{kind: b[0]}
		pos := 1
		if b[0] == 8 {
			if len(b) < 5 {
				return nil, 0, false
			}
			v.cnt = uint32(b[1])<<24 | uint32(b[2])<<16 | uint32(b[3])<<8 | uint32(b[4])
			pos = 5
		}
		for {
			if len(b) < pos+2 {
				return nil, 0, false
			}
			l := int(b[pos])<<8 | int(b[pos+1])
			if len(b) < pos+2+l {
				return nil, 0, false
			}
			key := string(b[pos+2 : pos+2+l])
			pos += 2 + l
			if len(b) < pos+1 {
				return nil, 0, false
			}
			if l == 0 && b[pos] == 9 {
				return v, pos + 1, true
			}
			val, m, ok := refDecode(b[pos:], keyedStrict, depth+1)
			if !ok {
				return nil, 0, false
			}
			v.keys = append(v.keys, key)
			v.vals = append(v.vals, val)
			pos += m
		}
	case 10:
		if len(b) < 5 {
			return nil, 0, false
		}
		cnt := uint32(b[1])<<24 | uint32(b[2])<<16 | uint32(b[3])<<8 | uint32(b[4])
		// a count that cannot fit the input is not a complete encoding
		if cnt > uint32(len(b)) {
			return nil, 0, false
		}
		v = &refVal{kind: 10}
		pos := 5
		for i := uint32(0); i < cnt; i++ {
			key := ""
			if keyedStrict {
				if len(b) < pos+2 {
					return nil, 0, false
				}
				l := int(b[pos])<<8 | int(b[pos+1])
				if len(b) < pos+2+l {
					return nil, 0, false
				}
				key = string(b[pos+2 : pos+2+l])
				pos += 2 + l
			}
			val, m, ok := refDecode(b[pos:], keyedStrict, depth+1)
			if !ok {
				return nil, 0, false
			}
			v.keys = append(v.keys, key)
			v.vals = append(v.vals, val)
			pos += m
		}
		return v, pos, true
	}
	return nil, 0, false
}

// matches: the library value a equals the model r (same kinds, bit-exact numbers, strings,
// keys in the same order). cmpKeys=false ignores the keys of strict arrays (the
// specification has none).
func matches(a Amf0, r *refVal, cmpStrictKeys bool) bool {
	switch x := a.(type) {
	case *Number:
		return vAnd(r.kind == 0, math.Float64bits(float64(*x)) == r.num)
	case *Boolean:
		return vAnd(r.kind == 1, bool(*x) == r.b)
	case *String:
		if r.kind != 2 || len(string(*x)) != len(r.s) {
			return false
		}
		return vEqStr(string(*x), r.s)
	case *null:
		return r.kind == 5
	case *undefined:
		return r.kind == 6
	case *Object:
		return r.kind == 3 && matchProps(x.properties, r, true, cmpStrictKeys)
	case *EcmaArray:
		return r.kind == 8 && matchProps(x.properties, r, true, cmpStrictKeys)
	case *StrictArray:
		return r.kind == 10 && matchProps(x.properties, r, cmpStrictKeys, cmpStrictKeys)
	}
	return false
}

func matchProps(ps []*property, r *refVal, cmpKeys, cmpStrictKeys bool) bool {
	if len(ps) != len(r.vals) {
		return false
	}
	acc := true
	for i, p := range ps {
		if cmpKeys {
			if len(string(p.key)) != len(r.keys[i]) {
				return false
			}
			acc = vAnd(acc, vEqStr(string(p.key), r.keys[i]))
		}
		acc = vAnd(acc, matches(p.value, r.vals[i], cmpStrictKeys))
	}
	return acc
}

func hasNonEmptyStrict(r *refVal) bool {
	if r.kind == 10 && len(r.vals) > 0 {
		return true
	}
	for _, c := range r.vals {
		if hasNonEmptyStrict(c) {
			return true
		}
	}
	return false
}
