package avc

// C07 (AVC): untrusted bytes never crash or stall the NAL unit / record / sample decoders.
func HarnessC07_Avc() {
	max := 10
	if vTier() == 1 {
		max = 14
	}
	data := vBytes(vChoice(max + 1))
	switch vChoice(3) {
	case 0:
		u := NewNALU()
		if u.UnmarshalBinary(data) == nil {
			_ = u.String()
			u.MarshalBinary()
		}
	case 1:
		r := NewAVCDecoderConfigurationRecord()
		if r.UnmarshalBinary(data) == nil {
			r.MarshalBinary()
			vReach("c07-avc-record")
		}
	case 2:
		s := NewAVCSample(uint8(vChoice(4)))
		if s.UnmarshalBinary(data) == nil {
			s.MarshalBinary()
			vReach("c07-avc-sample")
		}
	}
	vAssert(true, "decoder returned")
	vReach("c07-avc")
}

// HarnessC07_AvcEnums: enum helpers total over their types.
func HarnessC07_AvcEnums() {
	switch vChoice(3) {
	case 0:
		_ = NALUType(vU8()).String()
	case 1:
		_ = AVCProfile(vU16()).String()
	case 2:
		_ = AVCLevel(vU8()).String()
	}
	vAssert(true, "enum helper returned")
	vReach("c07-avc-enums")
}

// HarnessC07_AvcLinear: decoding a sample of n, 2n, 4n NAL units (length prefix of 1, 2 or 4
// bytes) or one NAL unit of n, 2n, 4n bytes: the work grows no faster than linearly.
func HarnessC07_AvcLinear() {
	lsz := []int{1, 2, 4}[vChoice(3)]
	many := vChoice(2) == 0
	cost := func(n int) int {
		var data []byte
		put := func(k int) {
			for i := lsz - 1; i >= 0; i-- {
				data = append(data, byte(k>>(8*uint(i))))
			}
			data = append(data, 0x65)
			for i := 1; i < k; i++ {
				data = append(data, byte(i))
			}
		}
		if many {
			for i := 0; i < n; i++ {
				put(2)
			}
		} else {
			k := n
			if lsz == 1 && k > 255 {
				k = 255
			}
			if lsz == 2 && k > 65535 {
				k = 65535
			}
			put(k)
		}
		return vMeasure(func() {
			s := NewAVCSample(uint8(lsz - 1))
			vAssert(s.UnmarshalBinary(data) == nil, "a well-formed sample decodes")
		})
	}
	vLinear(cost, 48, 2048, 16384, "AVC sample decoding cost grows no faster than linearly with the input length")
	vReach("c07-avc-linear")
}
