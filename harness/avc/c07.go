package avc

// C07 (AVC): untrusted bytes never crash or stall the NAL unit / record / sample decoders.
func HarnessC07_Avc() {
	max := 10
	if vTier() == 1 {
		max = 14
	}
	data := vBytes(vChoice(max + 1))
	switch vChoice(3) {
	case 0:
		u := NewNALU()
		if u.UnmarshalBinary(data) == nil {
			_ = u.String()
			u.MarshalBinary()
		}
	case 1:
		r := NewAVCDecoderConfigurationRecord()
		if r.UnmarshalBinary(data) == nil {
			r.MarshalBinary()
			vReach("c07-avc-record")
		}
	case 2:
		s := NewAVCSample(uint8(vChoice(4)))
		if s.UnmarshalBinary(data) == nil {
			s.MarshalBinary()
			vReach("c07-avc-sample")
		}
	}
	vAssert(true, "decoder returned")
	vReach("c07-avc")
}

// HarnessC07_AvcEnums: enum helpers total over their types.
func HarnessC07_AvcEnums() {
	switch vChoice(3) {
	case 0:
		_ = NALUType(vU8()).String()
	case 1:
		_ = AVCProfile(vU16()).String()
	case 2:
		_ = AVCLevel(vU8()).String()
	}
	vAssert(true, "enum helper returned")
	vReach("c07-avc-enums")
}
