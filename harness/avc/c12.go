package avc

// C12: AVC configuration records, samples and NAL units round-trip in ISO layout.

func naluPayloadLen() int {
	c := []int{0, 1, 2, 3}
	if vTier() == 1 {
		c = []int{0, 1, 2, 3, 4, 5, 6, 7, 8, 254, 255, 256, 65533, 65534}
	}
	return c[vChoice(len(c))]
}

func naluPayload(n int) []byte {
	if n <= 8 {
		return vBytes(n)
	}
	b := vPattern(n, 9)
	b[0], b[n-1] = vU8(), vU8()
	return b
}

// symNALU builds a NAL unit with arbitrary nal_ref_idc (2 bits), nal_unit_type (5 bits) and payload.
func symNALU(n int) *NALU {
	u := NewNALU()
	u.NALRefIDC = NALRefIDC(vU8())
	u.NALUType = NALUType(vU8())
	vAssume(vAnd(u.NALRefIDC < 4, u.NALUType < 32))
	u.Data = naluPayload(n)
	return u
}

func refNALUBytes(u *NALU) []byte {
	return append([]byte{byte(u.NALRefIDC)<<5 | byte(u.NALUType)}, u.Data...)
}

func assertNALUEq(a, b *NALU, what string) {
	vAssert(vAnd(a.NALRefIDC == b.NALRefIDC, a.NALUType == b.NALUType), what+": NAL header fields equal")
	vAssert(len(a.Data) == len(b.Data), what+": NAL payload length equal")
	if len(a.Data) == len(b.Data) {
		vAssert(vEqBytes(a.Data, b.Data), what+": NAL payload equal")
	}
}

// HarnessC12_NALU: all 256 header bytes; canonical = forbidden_zero_bit 0.
func HarnessC12_NALU() {
	n := naluPayloadLen()
	b := append([]byte{vU8()}, naluPayload(n)...)
	u := NewNALU()
	err := u.UnmarshalBinary(b)
	vAssert(err == nil, "a NAL unit of 1+ bytes unmarshals")
	if err != nil {
		return
	}
	vAssert(vAnd(uint8(u.NALRefIDC) == b[0]>>5&3, uint8(u.NALUType) == b[0]&0x1f), "nal_ref_idc and nal_unit_type decoded per 7.3.1")
	vAssert(u.Size() == len(b), "NALU Size() is the encoded size")
	out, err := u.MarshalBinary()
	vAssert(err == nil, "NALU marshals")
	if err != nil {
		return
	}
	vAssert(len(out) == len(b), "NALU re-marshal length")
	if len(out) == len(b) {
		if b[0]&0x80 == 0 {
			vAssert(vEqBytes(out, b), "canonical NALU re-marshals to the same bytes")
		} else {
			vAssert(vAnd(out[0] == b[0]&0x7f, vEqBytes(out[1:], b[1:])), "NALU re-marshal clears only the forbidden bit")
		}
	}
	// value -> bytes -> value
	v := symNALU(n)
	enc, err := v.MarshalBinary()
	vAssert(err == nil, "NALU marshals")
	if err == nil {
		vAssert(vEqBytes(enc, refNALUBytes(v)), "NALU bytes are header byte + payload")
		w := NewNALU()
		if w.UnmarshalBinary(enc) == nil {
			assertNALUEq(w, v, "NALU round trip")
		}
	}
	vReach("nalu")
}

// refRecord: ISO/IEC 14496-15 5.2.4.1.1 writer.
func refRecord(profile, compat, level, lsm1 uint8, sps, pps []*NALU) []byte {
	out := []byte{1, profile, compat, level, 0xfc | lsm1&3, 0xe0 | uint8(len(sps))&0x1f}
	for _, u := range sps {
		b := refNALUBytes(u)
		out = append(out, byte(len(b)>>8), byte(len(b)))
		out = append(out, b...)
	}
	out = append(out, uint8(len(pps)))
	for _, u := range pps {
		b := refNALUBytes(u)
		out = append(out, byte(len(b)>>8), byte(len(b)))
		out = append(out, b...)
	}
	return out
}

func genSets(max int) []*NALU {
	k := vChoice(max + 1)
	s := make([]*NALU, k)
	for i := range s {
		s[i] = symNALU(vChoice(3))
	}
	return s
}

// HarnessC12_Record: marshal == ISO reference bytes (reserved bits included); unmarshal of the
// marshalled and of the reference bytes gives equal values.
func HarnessC12_Record() {
	profile, compat, level, lsm1 := vU8(), vU8(), vU8(), vU8()&3
	var sps, pps []*NALU
	switch {
	case vChoice(3) == 0:
		// count boundaries: quick 17 SPS / 3 PPS, thorough 31 SPS / 255 PPS, one byte each
		ns, np := 17, 3
		if vTier() == 1 {
			// every SPS count 0..31 with a PPS count from the whole 0..255 range
			ns = vChoice(32)
			np = []int{0, 1, 2, 15, 16, 127, 128, 254, 255}[vChoice(9)]
		}
		sps = make([]*NALU, ns)
		for i := range sps {
			sps[i] = symNALU(0)
		}
		pps = make([]*NALU, np)
		for i := range pps {
			pps[i] = symNALU(0)
		}
	default:
		sps, pps = genSets(2), genSets(2)
	}
	r := NewAVCDecoderConfigurationRecord()
	r.AVCProfileIndication, r.profileCompatibility, r.AVCLevelIndication, r.LengthSizeMinusOne = AVCProfile(profile), compat, AVCLevel(level), lsm1
	r.SequenceParameterSetNALUnits, r.PictureParameterSetNALUnits = sps, pps
	got, err := r.MarshalBinary()
	vAssert(err == nil, "record marshals")
	if err != nil {
		return
	}
	ref := refRecord(profile, compat, level, lsm1, sps, pps)
	vAssert(len(got) == len(ref), "record length per ISO 14496-15")
	if len(got) == len(ref) {
		vAssert(vEqBytes(got, ref), "record bytes are exactly ISO 14496-15 5.2.4.1.1 (reserved bits set)")
	}
	for pass, data := range [][]byte{got, ref} {
		what := "unmarshal(marshal(record))"
		if pass == 1 {
			what = "unmarshal(reference-written record)"
		}
		q := &AVCDecoderConfigurationRecord{}
		err = q.UnmarshalBinary(data)
		vAssert(err == nil, what+" succeeds")
		if err != nil {
			return
		}
		vAssert(vAnd(q.configurationVersion == 1, vAnd(q.AVCProfileIndication == AVCProfile(profile), vAnd(q.profileCompatibility == compat, uint8(q.AVCLevelIndication) == level))), what+": profile/compat/level equal")
		vAssert(q.LengthSizeMinusOne == lsm1, what+": lengthSizeMinusOne equal")
		vAssert(vAnd(len(q.SequenceParameterSetNALUnits) == len(sps), len(q.PictureParameterSetNALUnits) == len(pps)), what+": SPS/PPS counts equal")
		if len(q.SequenceParameterSetNALUnits) == len(sps) && len(q.PictureParameterSetNALUnits) == len(pps) {
			for i := range sps {
				assertNALUEq(q.SequenceParameterSetNALUnits[i], sps[i], what+" SPS")
			}
			for i := range pps {
				assertNALUEq(q.PictureParameterSetNALUnits[i], pps[i], what+" PPS")
			}
		}
		if pass == 1 {
			// canonical encoding -> value -> bytes
			again, err := q.MarshalBinary()
			vAssert(err == nil, "re-marshal succeeds")
			if err == nil {
				vAssert(len(again) == len(ref), "marshal(unmarshal(canonical record)) length")
				if len(again) == len(ref) {
					vAssert(vEqBytes(again, ref), "marshal(unmarshal(canonical record)) reproduces it")
				}
			}
		}
	}
	vReach("record")
}

// HarnessC12_Sample: length-prefixed samples for each NAL length size.
func HarnessC12_Sample() {
	lsm1 := uint8(vChoice(4))
	k := vChoice(4)
	s := NewAVCSample(lsm1)
	var ref []byte
	for i := 0; i < k; i++ {
		n := vChoice(3)
		if vTier() == 0 && i == 0 && lsm1 >= 2 && k == 1 && vChoice(2) == 1 {
			n = 65536 // the first size that needs more than two length bytes
		}
		if vTier() == 1 && i == 0 {
			// boundary sizes for the length field: fit within the length size
			// payload sizes; the NAL unit (header byte + payload) must fit the length field
			c := []int{0, 1, 2, 252, 253, 254}
			if lsm1 >= 1 {
				c = append(c, 255, 256, 65533, 65534)
			}
			if lsm1 >= 2 {
				c = append(c, 65535, 65536)
			}
			n = c[vChoice(len(c))]
		}
		u := symNALU(n)
		s.NALUs = append(s.NALUs, u)
		b := refNALUBytes(u)
		for j := int(lsm1); j >= 0; j-- {
			ref = append(ref, byte(len(b)>>(8*uint(j))))
		}
		ref = append(ref, b...)
	}
	got, err := s.MarshalBinary()
	vAssert(err == nil, "sample marshals")
	if err != nil {
		return
	}
	vAssert(len(got) == len(ref), "sample length: per NAL unit a length of lengthSizeMinusOne+1 bytes")
	if len(got) == len(ref) {
		vAssert(vEqBytes(got, ref), "sample bytes per ISO 14496-15 5.3.4.2")
	}
	t := NewAVCSample(lsm1)
	err = t.UnmarshalBinary(ref)
	vAssert(err == nil, "sample unmarshals")
	if err != nil {
		return
	}
	vAssert(len(t.NALUs) == k, "sample NAL unit count equal")
	if len(t.NALUs) == k {
		for i := range t.NALUs {
			assertNALUEq(t.NALUs[i], s.NALUs[i], "sample")
		}
		again, err := t.MarshalBinary()
		vAssert(err == nil, "sample re-marshals")
		if err == nil && len(again) == len(ref) {
			vAssert(vEqBytes(again, ref), "marshal(unmarshal(sample)) reproduces it")
		}
	}
	vReach("sample")
}
