package errors

import "io"

// C08 (errors package): wrapping keeps the root cause and the message chain; nil stays nil.

type rootErr struct{ s string }

func (e *rootErr) Error() string { return e.s }

// a foreign error that itself wraps another one (like *net.OpError): Cause must stop at it
func (e *rootErr) Unwrap() error { return io.ErrClosedPipe }

// HarnessC08_Errors: every nesting of the constructors over a root error.
func HarnessC08_Errors() {
	var root error
	rootMsg := "root"
	switch vChoice(4) {
	case 0:
		root = io.EOF
		rootMsg = "EOF"
	case 1:
		root = &rootErr{"root"}
	case 2:
		root = New("root")
	case 3:
		root = Errorf("ro%vt", "o")
	}
	depth := 1 + vChoice(3)
	if vTier() == 1 {
		depth = 1 + vChoice(4)
	}
	err := root
	want := rootMsg
	msgs := [][]string{{"m0", "100%", "%s"}, {"m1", "a: b", "%d%%"}, {"m2", "", "%v"}, {"m3", "%", "x"}}
	for i := 0; i < depth; i++ {
		m := msgs[i][vChoice(3)]
		switch vChoice(4) {
		case 0:
			err = WithStack(err)
		case 1:
			err = Wrap(err, m)
			want = m + ": " + want
		case 2:
			err = Wrapf(err, "%v", m)
			want = m + ": " + want
		case 3:
			err = WithMessage(err, m)
			want = m + ": " + want
		}
		vAssert(err != nil, "wrapping a non-nil error is non-nil")
	}
	vAssert(Cause(err) == root, "Cause recovers exactly the root error through every wrapping layer")
	vAssert(err.Error() == want, "Error() is the outer-to-inner messages joined by ': '")
	vAssert(WithStack(nil) == nil && Wrap(nil, "x") == nil && Wrapf(nil, "%v", 1) == nil && WithMessage(nil, "x") == nil, "wrapping nil yields nil")
	vAssert(Cause(nil) == nil, "Cause(nil) is nil")
	vReach("errors")
}
