package flv

import "github.com/ossrs/go-oryx-lib/aac"

// C07 (FLV): untrusted bytes never crash or stall the demuxer or the tag decoders.

func HarnessC07_FlvDemux() {
	max := 16
	if vTier() == 1 {
		max = 24
	}
	n := vChoice(max + 1)
	data := vBytes(n)
	if vChoice(2) == 1 {
		// a well-formed header (symbolic version and flags) followed by arbitrary bytes
		data = append([]byte{'F', 'L', 'V', vU8(), vU8(), 0, 0, 0, 9, 0, 0, 0, 0}, data...)
	}
	r := &segReader{data: data, cut: -1}
	if vChoice(2) == 1 {
		r.chunk = 1
	}
	d, _ := NewDemuxer(r)
	if _, _, _, err := d.ReadHeader(); err == nil {
		for i := 0; i < 3; i++ {
			_, size, _, err := d.ReadTagHeader()
			if err != nil {
				break
			}
			// sizes up to 40 are explored exhaustively; larger ones only by their effect (EOF)
			if size > 40 {
				vAssume(vOr(size == 0xffffff, vOr(size == 0x10000, size == 41)))
			}
			if _, err := d.ReadTag(size); err != nil {
				break
			}
			vReach("c07-flv-tag")
		}
	}
	vAssert(true, "demuxer returned")
	vReach("c07-flv-demux")
}

func HarnessC07_FlvTags() {
	n := vChoice(9)
	data := vBytes(n)
	ap, _ := NewAudioPackager()
	if f, err := ap.Decode(data); err == nil {
		ap.Encode(f)
		_ = f.SoundFormat.String() + f.SoundRate.String() + f.SoundSize.String() + f.SoundType.String() + f.Trait.String()
	}
	vp, _ := NewVideoPackager()
	if f, err := vp.Decode(data); err == nil {
		vp.Encode(f)
		_ = f.CodecID.String() + f.FrameType.String() + f.Trait.String()
	}
	vAssert(true, "tag decoders returned")
	vReach("c07-flv-tags")
}

// HarnessC07_FlvEnums: the enum helpers are total over the whole range of their type.
func HarnessC07_FlvEnums() {
	x := vU8()
	switch vChoice(12) {
	case 0:
		_ = TagType(x).String()
	case 1:
		_ = AudioFrameTrait(x).String()
	case 2:
		_ = AudioChannels(x).String()
	case 3:
		_ = AudioSampleBits(x).String()
	case 4:
		_ = AudioSamplingRate(x).String()
	case 5:
		_ = AudioSamplingRate(x).ToHz()
	case 6:
		_ = AudioSamplingRate(x).OpusToHz()
	case 7:
		_ = AudioCodec(x).String()
	case 8:
		_ = VideoFrameType(x).String() + VideoCodec(x).String() + VideoFrameTrait(x).String()
	case 9:
		var r AudioSamplingRate
		r.From(aac.SampleRateIndex(x))
		_ = r.String()
	case 10:
		var r AudioSamplingRate
		r.OpusFrom(aac.SampleRateIndex(x))
		_ = r.String()
	case 11:
		var c AudioChannels
		c.From(aac.Channels(x))
		_ = c.String()
	}
	vAssert(true, "enum helper returned")
	vReach("c07-flv-enums")
}

// HarnessC07_FlvLinear: demuxing a file of n, 2n, 4n small tags, or decoding one audio / video
// tag body of n, 2n, 4n bytes: the work grows no faster than linearly.
func HarnessC07_FlvLinear() {
	shape := vChoice(3)
	cost := func(n int) int {
		switch shape {
		case 0:
			file := refFLVHeader(true, true)
			for i := 0; i < n; i++ {
				file = append(file, refFLVTag(8, uint32(i), []byte{0xaf, 1, byte(i)})...)
			}
			return vMeasure(func() {
				d, _ := NewDemuxer(&segReader{data: file, cut: -1})
				_, _, _, err := d.ReadHeader()
				got := 0
				for err == nil {
					var size uint32
					if _, size, _, err = d.ReadTagHeader(); err == nil {
						if _, err = d.ReadTag(size); err == nil {
							got++
						}
					}
				}
				vAssert(got == n, "every tag of the well-formed file is read")
			})
		case 1:
			body := append([]byte{0xaf, 1}, vPattern(n, 3)...)
			return vMeasure(func() {
				p, _ := NewAudioPackager()
				_, err := p.Decode(body)
				vAssert(err == nil, "a well-formed audio tag decodes")
			})
		default:
			body := append([]byte{0x17, 1, 0, 0, 0}, vPattern(n, 3)...)
			return vMeasure(func() {
				p, _ := NewVideoPackager()
				_, err := p.Decode(body)
				vAssert(err == nil, "a well-formed video tag decodes")
			})
		}
	}
	vLinear(cost, 48, 2048, 16384, "FLV decoding cost grows no faster than linearly with the input length")
	vReach("c07-flv-linear")
}
