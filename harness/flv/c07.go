package flv

import "github.com/ossrs/go-oryx-lib/aac"

// C07 (FLV): untrusted bytes never crash or stall the demuxer or the tag decoders.

func HarnessC07_FlvDemux() {
	max := 16
	if vTier() == 1 {
		max = 24
	}
	n := vChoice(max + 1)
	data := vBytes(n)
	if vChoice(2) == 1 {
		// a well-formed header (symbolic version and flags) followed by arbitrary bytes
		data = append([]byte{'F', 'L', 'V', vU8(), vU8(), 0, 0, 0, 9, 0, 0, 0, 0}, data...)
	}
	r := &segReader{data: data, cut: -1}
	if vChoice(2) == 1 {
		r.chunk = 1
	}
	d, _ := NewDemuxer(r)
	if _, _, _, err := d.ReadHeader(); err == nil {
		for i := 0; i < 3; i++ {
			_, size, _, err := d.ReadTagHeader()
			if err != nil {
				break
			}
			// sizes up to 40 are explored exhaustively; larger ones only by their effect (EOF)
			if size > 40 {
				vAssume(vOr(size == 0xffffff, vOr(size == 0x10000, size == 41)))
			}
			if _, err := d.ReadTag(size); err != nil {
				break
			}
			vReach("c07-flv-tag")
		}
	}
	vAssert(true, "demuxer returned")
	vReach("c07-flv-demux")
}

func HarnessC07_FlvTags() {
	n := vChoice(9)
	data := vBytes(n)
	ap, _ := NewAudioPackager()
	if f, err := ap.Decode(data); err == nil {
		ap.Encode(f)
		_ = f.SoundFormat.String() + f.SoundRate.String() + f.SoundSize.String() + f.SoundType.String() + f.Trait.String()
	}
	vp, _ := NewVideoPackager()
	if f, err := vp.Decode(data); err == nil {
		vp.Encode(f)
		_ = f.CodecID.String() + f.FrameType.String() + f.Trait.String()
	}
	vAssert(true, "tag decoders returned")
	vReach("c07-flv-tags")
}

// HarnessC07_FlvEnums: the enum helpers are total over the whole range of their type.
func HarnessC07_FlvEnums() {
	x := vU8()
	switch vChoice(12) {
	case 0:
		_ = TagType(x).String()
	case 1:
		_ = AudioFrameTrait(x).String()
	case 2:
		_ = AudioChannels(x).String()
	case 3:
		_ = AudioSampleBits(x).String()
	case 4:
		_ = AudioSamplingRate(x).String()
	case 5:
		_ = AudioSamplingRate(x).ToHz()
	case 6:
		_ = AudioSamplingRate(x).OpusToHz()
	case 7:
		_ = AudioCodec(x).String()
	case 8:
		_ = VideoFrameType(x).String() + VideoCodec(x).String() + VideoFrameTrait(x).String()
	case 9:
		var r AudioSamplingRate
		r.From(aac.SampleRateIndex(x))
		_ = r.String()
	case 10:
		var r AudioSamplingRate
		r.OpusFrom(aac.SampleRateIndex(x))
		_ = r.String()
	case 11:
		var c AudioChannels
		c.From(aac.Channels(x))
		_ = c.String()
	}
	vAssert(true, "enum helper returned")
	vReach("c07-flv-enums")
}
