package flv

import "io"

// C08 (FLV part): a cut file or a failing writer surfaces the transport's error; only
// completely transferred tags are returned.

type sentinelErr struct{ s string }

func (e *sentinelErr) Error() string { return e.s }

// the transport's error wraps another one (like *net.OpError): the root cause recovered by the
// errors package is still the transport's error itself
func (e *sentinelErr) Unwrap() error { return io.ErrClosedPipe }

var errTransport = &sentinelErr{"transport failed"}

func HarnessC08_FlvReadCut() {
	hv, ha := vBool(), vBool()
	k := 1 + vChoice(2)
	var tags []flvTag
	file := refFLVHeader(hv, ha)
	ends := []int{len(file)}
	for i := 0; i < k; i++ {
		t := flvTag{tt: vU8(), ts: vU32(), body: vBytes(vChoice(3))}
		tags = append(tags, t)
		file = append(file, refFLVTag(t.tt, t.ts, t.body)...)
		ends = append(ends, len(file))
	}
	cut := vChoice(len(file) + 1)
	r := &segReader{data: file, cut: cut}
	useSentinel := vChoice(2) == 1
	if useSentinel {
		r.cutErr = errTransport
	}
	if vChoice(2) == 1 {
		r.chunk = 1
	}
	checkErr := func(err error) {
		vAssert(err != nil, "an incomplete item is never returned with a nil error")
		if err == nil {
			return
		}
		if useSentinel {
			vAssert(err == error(errTransport), "root cause is exactly the transport's error")
		} else {
			vAssert(err == io.EOF || err == io.ErrUnexpectedEOF, "a cut file reports io.EOF or io.ErrUnexpectedEOF")
		}
	}
	d, _ := NewDemuxer(r)
	ver, gv, gaud, err := d.ReadHeader()
	if cut < 13 {
		checkErr(err)
		vReach("flv-cut-header")
		return
	}
	vAssert(vAnd(err == nil, vAnd(ver == 1, vAnd(gv == hv, gaud == ha))), "complete header is returned")
	off := 13
	for _, t := range tags {
		tt, size, ts, err := d.ReadTagHeader()
		if cut < off+11 {
			checkErr(err)
			vReach("flv-cut-taghdr")
			return
		}
		vAssert(vAnd(err == nil, vAnd(uint8(tt) == t.tt, vAnd(size == uint32(len(t.body)), ts == t.ts))), "complete tag header is returned")
		body, err := d.ReadTag(size)
		if cut < off+11+len(t.body)+4 {
			checkErr(err)
			vAssert(len(body) == 0, "no truncated tag body accompanies the error")
			vReach("flv-cut-body")
			return
		}
		vAssert(err == nil, "complete tag is returned")
		if err == nil && len(body) == len(t.body) {
			vAssert(vEqBytes(body, t.body), "complete tag body unmodified")
		}
		off += 11 + len(t.body) + 4
	}
	vReach("flv-cut-none")
}

func HarnessC08_FlvWriteFail() {
	w := &sinkWriter{failAt: vChoice(4), failN: vChoice(3), failErr: errTransport}
	m, _ := NewMuxer(w)
	calls := 0
	err := m.WriteHeader(vBool(), vBool())
	calls++ // header = 1 write
	if w.failAt < calls {
		vAssert(err == error(errTransport), "WriteHeader reports the transport's error")
		vReach("flv-write-fail")
		return
	}
	vAssert(err == nil, "WriteHeader succeeds before the failure")
	body := vBytes(1 + vChoice(2))
	err = m.WriteTag(TagType(vU8()), vU32(), body)
	calls += 3 // tag header, body, previous tag size
	if w.failAt < calls {
		vAssert(err == error(errTransport), "WriteTag reports the transport's error")
		vReach("flv-write-fail")
		return
	}
	vAssert(err == nil, "WriteTag succeeds before the failure")
	vReach("flv-write-ok")
}
