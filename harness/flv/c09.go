package flv

// C09: FLV files written are read back identically and follow the FLV version 1 layout.

// refFLVHeader / refFLVTag: independent writer of the FLV v1 layout (Annex E).
func refFLVHeader(hasVideo, hasAudio bool) []byte {
	var flags byte
	if hasVideo {
		flags |= 1
	}
	if hasAudio {
		flags |= 4
	}
	return []byte{'F', 'L', 'V', 1, flags, 0, 0, 0, 9, 0, 0, 0, 0}
}

func refFLVTag(tt uint8, ts uint32, body []byte) []byte {
	n := uint32(len(body))
	out := []byte{tt, byte(n >> 16), byte(n >> 8), byte(n), byte(ts >> 16), byte(ts >> 8), byte(ts), byte(ts >> 24), 0, 0, 0}
	out = append(out, body...)
	p := n + 11
	return append(out, byte(p>>24), byte(p>>16), byte(p>>8), byte(p))
}

func flvBody(n int) []byte {
	if n <= 8 {
		return vBytes(n)
	}
	b := vPattern(n, 5)
	b[0], b[n/2], b[n-1] = vU8(), vU8(), vU8()
	return b
}

type flvTag struct {
	tt   uint8
	ts   uint32
	body []byte
}

// genTags draws 1-2 tags: the first with a small symbolic body or a boundary-size body, the
// second (if any) with a small symbolic body.
func genTags(muxOnly bool) []flvTag {
	small := 3
	big := []int{255, 256, 65535, 65536}
	if vTier() == 1 {
		small = 8
		big = []int{255, 256, 65524, 65525, 65535, 65536, 65537, 131071, 1 << 20}
		if muxOnly {
			big = append(big, 1<<24-12, 1<<24-11)
		}
	}
	if muxOnly {
		// the 24-bit size limit itself (the demuxing harnesses stop at 2^20: reading 16 MiB back
		// through bytes.Buffer exceeds the engine's allocation bound)
		big = append(big, 1<<24-1)
	}
	k := 1 + vChoice(2)
	tags := make([]flvTag, k)
	for i := range tags {
		var n int
		if i > 0 || vChoice(2) == 0 {
			n = vChoice(small + 1)
		} else {
			n = big[vChoice(len(big))]
		}
		tags[i] = flvTag{tt: vU8(), ts: vU32(), body: flvBody(n)}
	}
	return tags
}

// flvSegmentation chooses how the transport splits the file into reads: all at once, a fixed
// chunk size (1 byte for short files), or one split point at or next to a structural boundary
// (header end, tag header end, body end, PreviousTagSize end).
func flvSegmentation(file []byte, tags []flvTag) *segReader {
	r := &segReader{data: file, cut: -1}
	switch vChoice(3) {
	case 0:
	case 1:
		if len(file) <= 64 {
			r.chunk = 1
		} else {
			r.chunk = 4093
		}
	case 2:
		var cand []int
		add := func(o int) {
			for d := -2; d <= 2; d++ {
				if o+d >= 1 && o+d < len(file) {
					cand = append(cand, o+d)
				}
			}
		}
		if len(file) <= 40 {
			for o := 1; o < len(file); o++ {
				cand = append(cand, o)
			}
		} else {
			off := 13
			add(off)
			for _, t := range tags {
				off += 11
				add(off)
				off += len(t.body)
				add(off)
				off += 4
				add(off)
			}
		}
		if len(cand) > 0 {
			r.first = cand[vChoice(len(cand))]
		}
	}
	return r
}

// HarnessC09_Mux: the muxer's bytes are exactly the FLV v1 layout.
func HarnessC09_Mux() {
	hv, ha := vBool(), vBool()
	tags := genTags(true)
	w := &sinkWriter{failAt: -1}
	m, _ := NewMuxer(w)
	err := m.WriteHeader(hv, ha)
	vAssert(err == nil, "WriteHeader succeeds on a working writer")
	ref := refFLVHeader(hv, ha)
	for _, t := range tags {
		err = m.WriteTag(TagType(t.tt), t.ts, t.body)
		vAssert(err == nil, "WriteTag succeeds on a working writer")
		ref = append(ref, refFLVTag(t.tt, t.ts, t.body)...)
	}
	vAssert(len(w.data) == len(ref), "file length is 13 + sum(11 + body + 4)")
	if len(w.data) == len(ref) {
		vAssert(vEqBytes(w.data, ref), "file bytes are the FLV version 1 layout")
	}
	vReach("mux")
}

func demuxAll(r *segReader, tags []flvTag, hv, ha bool) {
	d, _ := NewDemuxer(r)
	ver, gv, gaud, err := d.ReadHeader()
	vAssert(err == nil, "ReadHeader succeeds")
	if err != nil {
		return
	}
	vAssert(vAnd(ver == 1, vAnd(gv == hv, gaud == ha)), "header version and flags returned")
	for _, t := range tags {
		tt, size, ts, err := d.ReadTagHeader()
		vAssert(err == nil, "ReadTagHeader succeeds")
		if err != nil {
			return
		}
		vAssert(vAnd(uint8(tt) == t.tt, vAnd(size == uint32(len(t.body)), ts == t.ts)), "tag type, size and 32-bit timestamp identical")
		body, err := d.ReadTag(size)
		vAssert(err == nil, "ReadTag succeeds")
		if err != nil {
			return
		}
		vAssert(len(body) == len(t.body), "tag body length identical")
		if len(body) == len(t.body) {
			vAssert(vEqBytes(body, t.body), "tag body identical")
		}
	}
	_, _, _, err = d.ReadTagHeader()
	vAssert(err != nil, "end of file is reported after the last tag")
}

// HarnessC09_RoundTrip: muxer output is demuxed to the same tags under every segmentation.
func HarnessC09_RoundTrip() {
	hv, ha := vBool(), vBool()
	tags := genTags(false)
	w := &sinkWriter{failAt: -1}
	m, _ := NewMuxer(w)
	if m.WriteHeader(hv, ha) != nil {
		return
	}
	for _, t := range tags {
		if m.WriteTag(TagType(t.tt), t.ts, t.body) != nil {
			return
		}
	}
	demuxAll(flvSegmentation(w.data, tags), tags, hv, ha)
	vReach("roundtrip")
}

// HarnessC09_RefDemux: files produced by the independent writer are demuxed to the same tags.
func HarnessC09_RefDemux() {
	hv, ha := vBool(), vBool()
	tags := genTags(false)
	file := refFLVHeader(hv, ha)
	for _, t := range tags {
		file = append(file, refFLVTag(t.tt, t.ts, t.body)...)
	}
	demuxAll(flvSegmentation(file, tags), tags, hv, ha)
	vReach("refdemux")
}
