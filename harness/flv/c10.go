package flv

// C10: FLV audio/video tag bodies round-trip through the packagers.

func isOpusRate(r uint8) bool {
	return vOr(vOr(r == 8, r == 12), vOr(r == 16, vOr(r == 24, r == 48)))
}

// HarnessC10_AudioRT: decode(encode(frame)) == frame for every valid audio frame, and the
// codec id is readable in the first byte's high nibble.
func HarnessC10_AudioRT() {
	f := &AudioFrame{
		SoundFormat: AudioCodec(vU8()), SoundRate: AudioSamplingRate(vU8()), SoundSize: AudioSampleBits(vU8()),
		SoundType: AudioChannels(vU8()), Trait: AudioFrameTrait(vU8()), AudioLevel: vU16(),
	}
	f.Raw = vBytes(vChoice(4 + 8*vTier()))
	vAssume(vAnd(f.SoundFormat < 16, vAnd(f.SoundSize < 2, f.SoundType < 2)))
	switch vChoice(3) {
	case 0: // AAC: trait byte is the AAC packet type
		vAssume(f.SoundFormat == AudioCodecAAC)
		vAssume(vAnd(f.SoundRate < 4, f.AudioLevel == 0))
	case 1: // Opus: trait flags, optional sampling-rate byte and audio level
		vAssume(f.SoundFormat == AudioCodecOpus)
		hasSR := f.Trait&AudioFrameTraitOpusSamplingRate != 0
		hasAL := f.Trait&AudioFrameTraitOpusAudioLevel != 0
		vAssume(vOr(vAnd(hasSR, isOpusRate(uint8(f.SoundRate))), vAnd(vNot(hasSR), f.SoundRate == 0)))
		vAssume(vOr(hasAL, f.AudioLevel == 0))
	case 2: // every other sound format: no trait
		vAssume(vAnd(f.SoundFormat != AudioCodecAAC, f.SoundFormat != AudioCodecOpus))
		vAssume(vAnd(f.SoundRate < 4, vAnd(f.Trait == 0, f.AudioLevel == 0)))
	}
	p, _ := NewAudioPackager()
	tag, err := p.Encode(f)
	vAssert(err == nil, "audio Encode succeeds")
	if err != nil {
		return
	}
	vAssert(len(tag) >= 1, "audio tag body has a first byte")
	vAssert(tag[0]>>4 == uint8(f.SoundFormat), "sound format readable in the first byte")
	g, err := p.Decode(tag)
	vAssert(err == nil, "audio Decode accepts the encoder's output")
	if err != nil {
		return
	}
	same := vAnd(g.SoundFormat == f.SoundFormat, vAnd(g.SoundRate == f.SoundRate, vAnd(g.SoundSize == f.SoundSize, g.SoundType == f.SoundType)))
	same = vAnd(same, vAnd(g.Trait == f.Trait, g.AudioLevel == f.AudioLevel))
	vAssert(same, "audio frame fields identical after round trip")
	vAssert(len(g.Raw) == len(f.Raw), "audio raw length identical")
	if len(g.Raw) == len(f.Raw) {
		vAssert(vEqBytes(g.Raw, f.Raw), "audio raw identical")
	}
	vReach("audio-rt")
}

// HarnessC10_VideoRT: decode(encode(frame)) == frame for every valid video frame.
func HarnessC10_VideoRT() {
	f := &VideoFrame{CodecID: VideoCodec(vU8()), FrameType: VideoFrameType(vU8()), Trait: VideoFrameTrait(vU8()), CTS: vI32()}
	f.Raw = vBytes(vChoice(5 + 8*vTier()))
	vAssume(vAnd(f.CodecID < 16, f.FrameType < 16))
	if vChoice(2) == 0 {
		vAssume(vOr(f.CodecID == VideoCodecAVC, f.CodecID == VideoCodecHEVC))
		vAssume(vAnd(f.CTS >= 0, f.CTS < 1<<24))
	} else {
		vAssume(vAnd(f.CodecID != VideoCodecAVC, f.CodecID != VideoCodecHEVC))
		vAssume(vAnd(f.Trait == 0, f.CTS == 0))
	}
	p, _ := NewVideoPackager()
	tag, err := p.Encode(f)
	vAssert(err == nil, "video Encode succeeds")
	if err != nil {
		return
	}
	vAssert(len(tag) >= 1, "video tag body has a first byte")
	vAssert(vAnd(tag[0]>>4 == uint8(f.FrameType), tag[0]&0xf == uint8(f.CodecID)), "frame type and codec id readable in the first byte")
	g, err := p.Decode(tag)
	vAssert(err == nil, "video Decode accepts the encoder's output")
	if err != nil {
		return
	}
	vAssert(vAnd(g.CodecID == f.CodecID, vAnd(g.FrameType == f.FrameType, vAnd(g.Trait == f.Trait, g.CTS == f.CTS))), "video frame fields identical after round trip")
	vAssert(len(g.Raw) == len(f.Raw), "video raw length identical")
	if len(g.Raw) == len(f.Raw) {
		vAssert(vEqBytes(g.Raw, f.Raw), "video raw identical")
	}
	vReach("video-rt")
}

// HarnessC10_AudioCanon: for every canonical audio tag body the packager accepts,
// encode(decode(b)) == b. Canonical: for Opus the two sound-rate bits of the first byte are
// zero (the rate travels in its own byte).
func HarnessC10_AudioCanon() {
	n := 1 + vChoice(7+9*vTier())
	b := vBytes(n)
	p, _ := NewAudioPackager()
	f, err := p.Decode(b)
	if err != nil {
		vReach("audio-canon-rejected")
		return
	}
	if b[0]>>4 == uint8(AudioCodecOpus) {
		vAssume(b[0]&0x0c == 0)
	}
	out, err := p.Encode(f)
	vAssert(err == nil, "audio Encode of a decoded frame succeeds")
	if err != nil {
		return
	}
	vAssert(len(out) == n, "audio re-encoding has the same length")
	if len(out) == n {
		vAssert(vEqBytes(out, b), "audio re-encoding reproduces the canonical body")
	}
	vReach("audio-canon")
}

// HarnessC10_VideoCanon: every video tag body the packager accepts re-encodes to itself.
func HarnessC10_VideoCanon() {
	n := 1 + vChoice(7+9*vTier())
	b := vBytes(n)
	p, _ := NewVideoPackager()
	f, err := p.Decode(b)
	if err != nil {
		vReach("video-canon-rejected")
		return
	}
	out, err := p.Encode(f)
	vAssert(err == nil, "video Encode of a decoded frame succeeds")
	if err != nil {
		return
	}
	vAssert(len(out) == n, "video re-encoding has the same length")
	if len(out) == n {
		vAssert(vEqBytes(out, b), "video re-encoding reproduces the body")
	}
	vReach("video-canon")
}

// HarnessC10_Rates: every defined rate code converts to the defined frequency.
func HarnessC10_Rates() {
	v := AudioSamplingRate(vU8())
	if vChoice(2) == 0 {
		vAssume(v < 4)
		var hz int
		panicked := vExpectPanic(func() { hz = v.ToHz() })
		vAssert(!panicked, "ToHz does not panic on a defined FLV rate code")
		if !panicked {
			want := vIteInt(v == 0, 5512, vIteInt(v == 1, 11025, vIteInt(v == 2, 22050, 44100)))
			vAssert(hz == want, "FLV rate code converts to 5512/11025/22050/44100 Hz")
		}
		vReach("rates-flv")
	} else {
		vAssume(isOpusRate(uint8(v)))
		var hz int
		panicked := vExpectPanic(func() { hz = v.OpusToHz() })
		vAssert(!panicked, "OpusToHz does not panic on a defined Opus rate code")
		if !panicked {
			vAssert(hz == int(v)*1000, "Opus rate code converts to 8/12/16/24/48 kHz")
		}
		vReach("rates-opus")
	}
}

// HarnessC10_Stateless: decoding depends only on the tag body: two bodies decoded one after
// the other by the same packager give the frames that fresh packagers give.
func HarnessC10_Stateless() {
	b1 := vBytes(2 + vChoice(3+3*vTier()))
	b2 := vBytes(2 + vChoice(3+3*vTier()))
	shared, _ := NewAudioPackager()
	f1, e1 := shared.Decode(b1)
	f2, e2 := shared.Decode(b2)
	fresh, _ := NewAudioPackager()
	g2, e3 := fresh.Decode(b2)
	_, _ = f1, e1
	vAssert((e2 == nil) == (e3 == nil), "audio Decode accepts a body independently of earlier bodies")
	if e2 == nil && e3 == nil {
		same := vAnd(f2.SoundFormat == g2.SoundFormat, vAnd(f2.SoundRate == g2.SoundRate, vAnd(f2.SoundSize == g2.SoundSize, f2.SoundType == g2.SoundType)))
		same = vAnd(same, vAnd(f2.Trait == g2.Trait, f2.AudioLevel == g2.AudioLevel))
		vAssert(same, "audio Decode yields the same frame whatever was decoded before")
		vAssert(len(f2.Raw) == len(g2.Raw), "audio raw independent of earlier bodies")
	}
	vs, _ := NewVideoPackager()
	v1, _ := vs.Decode(b1)
	v2, ve2 := vs.Decode(b2)
	vf, _ := NewVideoPackager()
	w2, ve3 := vf.Decode(b2)
	_ = v1
	vAssert((ve2 == nil) == (ve3 == nil), "video Decode accepts a body independently of earlier bodies")
	if ve2 == nil && ve3 == nil {
		vAssert(vAnd(v2.CodecID == w2.CodecID, vAnd(v2.FrameType == w2.FrameType, vAnd(v2.Trait == w2.Trait, v2.CTS == w2.CTS))), "video Decode yields the same frame whatever was decoded before")
	}
	vReach("stateless")
}
