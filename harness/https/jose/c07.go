package jose

import (
	"crypto/cipher"
	"errors"
)

// C07 (JOSE content decryption kernel): aeadContentCipher.decrypt hands an untrusted IV and
// tag to a cipher.AEAD. contractAEAD follows the documented contract of cipher.AEAD.Open
// ("the nonce must be NonceSize() bytes long": the standard GCM and this library's CBC-HMAC
// panic otherwise) without doing any cryptography.
type contractAEAD struct{}

func (contractAEAD) NonceSize() int { return 12 }
func (contractAEAD) Overhead() int  { return 16 }
func (contractAEAD) Seal(dst, nonce, plaintext, additionalData []byte) []byte {
	return append(dst, plaintext...)
}
func (a contractAEAD) Open(dst, nonce, ciphertext, additionalData []byte) ([]byte, error) {
	if len(nonce) != a.NonceSize() {
		panic("crypto/cipher: incorrect nonce length given to GCM")
	}
	if len(ciphertext) < a.Overhead() {
		return nil, errors.New("cipher: message authentication failed")
	}
	if vBool() {
		return nil, errors.New("cipher: message authentication failed")
	}
	return append(dst, ciphertext[:len(ciphertext)-a.Overhead()]...), nil
}

func HarnessC07_AeadDecrypt() {
	ctx := aeadContentCipher{
		keyBytes:     16,
		authtagBytes: 16,
		getAead:      func(key []byte) (cipher.AEAD, error) { return contractAEAD{}, nil },
	}
	parts := &aeadParts{
		iv:         vBytes([]int{0, 1, 11, 12, 13, 16}[vChoice(6)]),
		ciphertext: vBytes(vChoice(3)),
		tag:        vBytes([]int{0, 1, 15, 16, 17}[vChoice(5)]),
	}
	_, err := ctx.decrypt(vBytes(16), vBytes(vChoice(2)), parts)
	if err == nil {
		vReach("c07-aead-ok")
	}
	vAssert(true, "decrypt returned")
	vReach("c07-aead")
}
