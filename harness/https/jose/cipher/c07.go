package josecipher

import (
	"crypto/cipher"
	"hash"
)

// C07 (JOSE kernels): the length/offset arithmetic of key wrap, CBC-HMAC and padding removal
// never panics on untrusted input. The cryptographic primitives are replaced by stubs whose
// outputs are unconstrained symbolic bytes (so every comparison outcome is explored); only
// panic-freedom is claimed, not any cryptographic property.

type stubBlock struct{ size int }

func (b *stubBlock) BlockSize() int { return b.size }
func (b *stubBlock) Encrypt(dst, src []byte) {
	for i := 0; i < b.size; i++ {
		dst[i] = vU8()
	}
}
func (b *stubBlock) Decrypt(dst, src []byte) {
	for i := 0; i < b.size; i++ {
		dst[i] = vU8()
	}
}

type stubHash struct{ n int }

func (h *stubHash) Write(p []byte) (int, error) { return len(p), nil }
func (h *stubHash) Sum(b []byte) []byte         { return append(b, vBytes(h.n)...) }
func (h *stubHash) Reset()                      {}
func (h *stubHash) Size() int                   { return h.n }
func (h *stubHash) BlockSize() int              { return 64 }

// HarnessC07_KeyWrap: KeyUnwrap / KeyWrap on inputs of every length 0..40.
func HarnessC07_KeyWrap() {
	n := vChoice(41)
	data := vBytes(n)
	blk := &stubBlock{size: 16}
	if vChoice(2) == 0 {
		out, err := KeyUnwrap(blk, data)
		if err == nil {
			vAssert(len(out) == n-8, "unwrapped key is 8 bytes shorter than the input")
			vReach("c07-unwrap-ok")
		}
	} else {
		out, err := KeyWrap(blk, data)
		if err == nil {
			vAssert(len(out) == n+8, "wrapped key is 8 bytes longer than the input")
			vReach("c07-wrap-ok")
		}
	}
	vAssert(true, "key wrap returned")
	vReach("c07-keywrap")
}

// HarnessC07_CBCHMAC: cbcAEAD.Open with nonce, ciphertext and associated data of every length
// within the bound; the HMAC stub makes both tag outcomes reachable.
func HarnessC07_CBCHMAC() {
	ctx := &cbcAEAD{
		hash:         func() hash.Hash { return &stubHash{n: 32} },
		blockCipher:  &stubBlock{size: 16},
		authtagBytes: 16,
		integrityKey: []byte{1, 2, 3, 4},
	}
	var _ cipher.AEAD = ctx
	nonce := vBytes([]int{0, 8, 15, 16, 17}[vChoice(5)])
	ct := vBytes([]int{0, 1, 15, 16, 17, 31, 32, 33, 48}[vChoice(9)])
	aad := vBytes(vChoice(2))
	pt, err := ctx.Open(nil, nonce, ct, aad)
	if err == nil {
		vAssert(len(pt) < len(ct), "plaintext is shorter than ciphertext+tag")
		vReach("c07-cbc-ok")
	}
	vAssert(true, "Open returned")
	vReach("c07-cbchmac")
}

// HarnessC07_Unpad: unpadBuffer on every buffer of 0..32 bytes.
func HarnessC07_Unpad() {
	n := []int{0, 1, 15, 16, 17, 32}[vChoice(6)]
	buf := vBytes(n)
	out, err := unpadBuffer(buf, 16)
	if err == nil {
		vAssert(len(out) < n, "unpadded buffer is shorter")
		vReach("c07-unpad-ok")
	}
	vAssert(true, "unpadBuffer returned")
	vReach("c07-unpad")
}

// xorBlock is a deterministic 16-byte "cipher" for the cost harness (no cryptographic meaning).
type xorBlock struct{}

func (xorBlock) BlockSize() int { return 16 }
func (xorBlock) Encrypt(dst, src []byte) {
	for i := 0; i < 16; i++ {
		dst[i] = src[i] ^ 0x5a
	}
}
func (xorBlock) Decrypt(dst, src []byte) {
	for i := 0; i < 16; i++ {
		dst[i] = src[i] ^ 0x5a
	}
}

var _ cipher.Block = xorBlock{}

// HarnessC07_KeyWrapLinear: KeyUnwrap / KeyWrap on a peer-supplied key of n, 2n, 4n 64-bit
// blocks: the work grows no faster than linearly with the length.
func HarnessC07_KeyWrapLinear() {
	unwrap := vChoice(2) == 0
	cost := func(n int) int {
		data := vPattern(8*(n+1), 5)
		return vMeasure(func() {
			if unwrap {
				KeyUnwrap(xorBlock{}, data)
			} else {
				KeyWrap(xorBlock{}, data)
			}
		})
	}
	vLinear(cost, 160, 256, 2048, "key (un)wrap cost grows no faster than linearly with the key length")
	vReach("c07-keywrap-linear")
}
