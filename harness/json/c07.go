package json

import "io/ioutil"

// C07 (JSON+ reader): arbitrary bytes through the comment-stripping reader, delivered whole,
// byte by byte, or split once at every offset: the read returns (data or error), never panics,
// never spins.
func HarnessC07_Json() {
	max := 5
	if vTier() == 1 {
		max = 7
	}
	n := vChoice(max + 1)
	data := vBytes(n)
	r := &chunkReader{data: data}
	switch vChoice(3) {
	case 1:
		r.chunk = 1
	case 2:
		if n > 1 {
			r.first = 1 + vChoice(n-1)
		}
	}
	out, err := ioutil.ReadAll(NewJsonPlusReader(r))
	if err == nil {
		_ = out
		vReach("c07-json-accepted")
	}
	vAssert(true, "reader returned")
	vReach("c07-json")
}

// HarnessC07_JsonLinear: the comment reader's work grows no faster than linearly with the input
// length when the input is delivered whole: a string literal, a block comment, a line comment or
// plain array text of n, 2n, 4n bytes.
func HarnessC07_JsonLinear() {
	shape := vChoice(4)
	cost := func(n int) int {
		var doc []byte
		fill := func(c byte) {
			for i := 0; i < n; i++ {
				doc = append(doc, c)
			}
		}
		switch shape {
		case 0:
			doc = append(doc, '[', '"')
			fill('s')
			doc = append(doc, '"', ']')
		case 1:
			doc = append(doc, '[', '/', '*')
			fill('c')
			doc = append(doc, '*', '/', ']')
		case 2:
			doc = append(doc, '[', '/', '/')
			fill('c')
			doc = append(doc, '\n', ']')
		default:
			doc = append(doc, '[')
			for i := 0; i < n; i++ {
				doc = append(doc, '1', ',')
			}
			doc = append(doc, '1', ']')
		}
		return vMeasure(func() {
			out, err := ioutil.ReadAll(NewJsonPlusReader(&chunkReader{data: doc}))
			vAssert(err == nil && len(out) > 0, "a well-formed document is read")
		})
	}
	vLinear(cost, 200, 4096, 16384, "comment stripping cost grows no faster than linearly with the input length")
	vReach("c07-json-linear")
}
