package json

import "io/ioutil"

// C07 (JSON+ reader): arbitrary bytes through the comment-stripping reader, delivered whole,
// byte by byte, or split once at every offset: the read returns (data or error), never panics,
// never spins; what comes out is never longer than what went in.
func HarnessC07_Json() {
	max := 5
	if vTier() == 1 {
		max = 7
	}
	n := vChoice(max + 1)
	data := vBytes(n)
	r := &chunkReader{data: data}
	switch vChoice(3) {
	case 1:
		r.chunk = 1
	case 2:
		if n > 1 {
			r.first = 1 + vChoice(n-1)
		}
	}
	out, err := ioutil.ReadAll(NewJsonPlusReader(r))
	if err == nil {
		vAssert(len(out) <= n, "the stripped text is no longer than the input")
		vReach("c07-json-accepted")
	}
	vReach("c07-json")
}
