package json

import (
	"bytes"
	stdjson "encoding/json"
	"io"
	"io/ioutil"
	"reflect"
)

// C17: comment stripping never changes what a JSON document means.

type chunkReader struct {
	data  []byte
	pos   int
	first int
	chunk int
	reads int
}

func (r *chunkReader) Read(p []byte) (int, error) {
	if r.pos >= len(r.data) {
		return 0, io.EOF
	}
	n := len(p)
	if n > len(r.data)-r.pos {
		n = len(r.data) - r.pos
	}
	max := r.chunk
	if r.reads == 0 && r.first > 0 {
		max = r.first
	}
	if max > 0 && n > max {
		n = max
	}
	copy(p, r.data[r.pos:r.pos+n])
	r.pos += n
	r.reads++
	return n, nil
}

// jsonString builds a string literal of up to `units` units, each a plain ASCII character
// (symbolic: anything printable except quote and backslash - so slash, star, apostrophe are
// solver choices) or an escape sequence \X with X symbolic in "\/bfnrt.
func jsonString(units int) []byte {
	out := []byte{'"'}
	n := vChoice(units + 1)
	for i := 0; i < n; i++ {
		if vChoice(2) == 0 {
			c := vU8()
			vAssume(vAnd(vAnd(c >= 0x20, c < 0x7f), vAnd(c != '"', c != '\\')))
			out = append(out, c)
		} else {
			e := vU8()
			vAssume(vOr(vOr(vOr(e == '"', e == '\\'), vOr(e == '/', e == 'b')), vOr(vOr(e == 'f', e == 'n'), vOr(e == 'r', e == 't'))))
			out = append(out, '\\', e)
		}
	}
	return append(out, '"')
}

// comment builds a line or block comment with symbolic content. eofOK: a line comment may
// end at end of input without newline.
func comment(eofOK bool) []byte {
	max := 2 // (3 in the thorough tier exceeded its 25-minute budget: 1.4 million paths, not finished)
	if vChoice(2) == 0 {
		c := vBytes(vChoice(max + 1))
		for _, b := range c {
			vAssume(vAnd(b != '\n', b > 0x20)) // visible characters: a leaked comment byte changes the document
		}
		text := append([]byte("//"), c...)
		if !eofOK || vChoice(2) == 0 {
			text = append(text, '\n')
		}
		return text
	}
	c := vBytes(vChoice(max + 1))
	for i, b := range c {
		vAssume(b > 0x20)
		if i > 0 {
			vAssume(vNot(vAnd(c[i-1] == '*', b == '/')))
		}
	}
	return append(append([]byte("/*"), c...), '*', '/')
}

func c17Tokens() [][]byte {
	switch vChoice(4) {
	case 0:
		return [][]byte{{'['}, jsonString(3), {']'}}
	case 1:
		return [][]byte{{'{'}, jsonString(1), {':'}, {' '}, jsonString(1), {'}'}}
	case 2:
		return [][]byte{{'['}, jsonString(1), {','}, jsonString(1), {']'}, {'\n'}}
	default:
		lit := [][]byte{[]byte("12"), []byte("true"), []byte("null"), []byte("-1.5e2")}[vChoice(4)]
		return [][]byte{{'['}, lit, {' '}, {']'}}
	}
}

// HarnessC17_Strip: a decorated document decodes to the value of the undecorated text.
func HarnessC17_Strip() {
	toks := c17Tokens()
	maxComments := 1 // (two comments in the thorough tier: 1.4 million paths, unfinished after 25 minutes, twice)
	// comments go into forked slots between tokens (slot len(toks) = after the last token)
	slots := map[int]bool{}
	ncomments := vChoice(maxComments + 1)
	for k := 0; k < ncomments; k++ {
		slots[vChoice(len(toks)+1)] = true
	}
	var doc, plain []byte
	var marks []int
	for i := 0; i <= len(toks); i++ {
		if slots[i] {
			marks = append(marks, len(doc)+1)
			doc = append(doc, comment(i == len(toks))...)
			marks = append(marks, len(doc)-1)
		}
		if i < len(toks) {
			doc = append(doc, toks[i]...)
			plain = append(plain, toks[i]...)
		}
	}
	ncomments = len(slots)
	r := &chunkReader{data: doc}
	switch vChoice(3) {
	case 1:
		r.chunk = 1
	case 2:
		// one split point inside or right after a comment marker (every offset in the thorough tier)
		if vTier() == 1 && len(doc) > 1 {
			r.first = 1 + vChoice(len(doc)-1)
		} else if len(marks) > 0 {
			m := marks[vChoice(len(marks))]
			if m >= 1 && m < len(doc) {
				r.first = m
			}
		}
	}
	out, err := ioutil.ReadAll(NewJsonPlusReader(r))
	same := err == nil && len(out) == len(plain)
	if same {
		same = vEqBytes(out, plain)
	}
	// symbolic run: the reader's output is the document with its comments removed;
	// native replay: the real oracle - both texts decode to the same value
	vAssertNative(same, func() bool {
		var want, got interface{}
		if stdjson.Unmarshal(plain, &want) != nil {
			return true // not a valid document: outside the property
		}
		if Unmarshal(&chunkReader{data: doc, chunk: r.chunk, first: r.first}, &got) != nil {
			return false
		}
		return reflect.DeepEqual(want, got)
	}, "decoding through the comment-aware reader yields the value of the undecorated text")
	if ncomments == 0 {
		vAssert(same && bytes.Equal(plain, doc), "a document without comments passes through byte for byte")
		vReach("strip-plain")
	} else {
		vReach("strip-comment")
	}
}
