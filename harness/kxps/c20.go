package kxps

import (
	"math"
	"time"
)

// C20: rate meters report the counter's growth over the last full window.

type symSource struct{ n uint64 }

func (s *symSource) Count() uint64      { return s.n }
func (s *symSource) TotalBytes() uint64 { return s.n }
func (s *symSource) NbRequests() uint64 { return s.n }

// vTime: an arbitrary instant within 2^33 s of the Unix epoch, no monotonic reading.
func vTime() (time.Time, int64, int64) {
	sec, ns := vI64(), vI64()
	vAssume(vAnd(sec >= 0, sec < 1<<33))
	vAssume(vAnd(ns >= 0, ns < 1000000000))
	return time.Unix(sec, ns), sec, ns
}

func finiteNonNeg(f float64) bool {
	return vAnd(f >= 0, f <= math.MaxFloat64)
}

// specRate: growth d over a window of w milliseconds, in units per second.
func specRate(d int64, wms int64) float64 {
	return float64(d) * 1000 / float64(wms)
}

func sameF(a, b float64) bool { return math.Float64bits(a) == math.Float64bits(b) }

func closeF(a, b float64) bool {
	if a == b || math.Float64bits(a) == math.Float64bits(b) {
		return true
	}
	return math.Abs(a-b) <= 1e-9*math.Max(math.Abs(a), math.Abs(b))
}

// rateIs asserts got == want. The symbolic run demands the bits of the defining formula (which
// makes the query decidable); the native confirmation accepts a relative difference of 1e-9,
// so that a refactoring that only changes the rounding can never be reported.
func rateIs(got, want float64, label string) {
	vAssertNative(sameF(got, want), func() bool {
		if got == want {
			return true
		}
		d := math.Abs(got - want)
		return d <= 1e-9*math.Max(math.Abs(got), math.Abs(want))
	}, label)
}

// HarnessC20_Step: one sampling step of one window from an arbitrary state.
func HarnessC20_Step() {
	w := []int64{10, 30, 300}[vChoice(3)]
	prevT, psec, pns := vTime()
	now, nsec, nns := vTime()
	prevRate := vF64()
	prevCnt, cnt := vU64(), vU64()
	s := &sample{rps: prevRate, count: prevCnt, lastSample: prevT, create: prevT, interval: time.Duration(w) * time.Second}
	sampled := s.sample(now, cnt)
	due := vOr(psec+w < nsec, vAnd(psec+w == nsec, pns <= nns))
	vAssert(sampled == due, "a window samples iff a full window length has passed since its previous sample")
	if !sampled {
		vAssert(vAnd(s.count == prevCnt, sameF(s.rps, prevRate)), "a window that does not sample keeps its state")
		vAssert(s.lastSample.Equal(prevT), "a window that does not sample keeps its sample time")
		vReach("step-wait")
		return
	}
	vAssert(s.count == cnt, "a sampling window remembers the counter")
	vAssert(s.lastSample.Equal(now), "a sampling window remembers the instant")
	d := int64(cnt - prevCnt)
	if d > 0 {
		rateIs(s.rps, specRate(d, w*1000), "rate is the counter's increase divided by the window length")
		vReach("step-grow")
	} else {
		vAssert(s.rps == 0, "a stalled or backwards counter yields 0")
		vReach("step-stall")
	}
	vAssert(finiteNonNeg(s.rps), "reported rate is finite and non-negative")
}

// HarnessC20_Cascade: one doSample from an arbitrary valid meter state: the 30 s window is
// considered only when the 10 s window sampled, the 300 s window only when the 30 s one did.
func HarnessC20_Cascade() {
	src := &symSource{}
	k := newKxps(nil, src)
	t10, s10, n10 := vTime()
	t30, s30, n30 := vTime()
	t300, s300, n300 := vTime()
	now, sn, nn := vTime()
	c10, c30, c300 := vU64(), vU64(), vU64()
	vAssume(c10 != 0)
	r10, r30, r300 := vF64(), vF64(), vF64()
	k.r10s.count, k.r10s.lastSample, k.r10s.rps = c10, t10, r10
	k.r30s.count, k.r30s.lastSample, k.r30s.rps = c30, t30, r30
	k.r300s.count, k.r300s.lastSample, k.r300s.rps = c300, t300, r300
	src.n = vU64()
	vAssume(src.n != 0)
	err := k.doSample(now)
	vAssert(err == nil, "doSample does not fail")
	due := func(ps, pn, w int64) bool { return vOr(ps+w < sn, vAnd(ps+w == sn, pn <= nn)) }
	d10 := due(s10, n10, 10)
	d30 := vAnd(d10, due(s30, n30, 30))
	d300 := vAnd(d30, due(s300, n300, 300))
	vAssert((k.r10s.count == src.n) == vOr(d10, c10 == src.n), "10 s window samples iff due")
	chk := func(s *sample, d bool, pc uint64, pr float64, w int64, name string) {
		want := vIteF64(int64(src.n-pc) > 0, specRate(int64(src.n-pc), w*1000), 0)
		ok := vIteU8(d, vIteU8(vAnd(s.count == src.n, sameF(s.rps, want)), 1, 0), vIteU8(vAnd(s.count == pc, sameF(s.rps, pr)), 1, 0))
		vAssertNative(ok == 1, func() bool {
			if d {
				return s.count == src.n && closeF(s.rps, want)
			}
			return s.count == pc && closeF(s.rps, pr)
		}, name+" window: samples (rate = growth / window) iff it and all faster windows are due, else unchanged")
		vAssert(vImplies(d, finiteNonNeg(s.rps)), name+" window: reported rate finite and non-negative")
	}
	chk(&k.r10s, d10, c10, r10, 10, "10 s")
	chk(&k.r30s, d30, c30, r30, 30, "30 s")
	chk(&k.r300s, d300, c300, r300, 300, "300 s")
	vReach("cascade")
}

// HarnessC20_History: observations from a fresh meter at irregular instants.
func HarnessC20_History() {
	src := &symSource{}
	k := newKxps(nil, src)
	n := 3
	if vTier() == 1 {
		n = 4
	}
	var lastSec, lastNs int64
	var prevCnt uint64
	var prevSec, prevNs int64
	inited := false
	for i := 0; i < n; i++ {
		now, s, ns := vTime()
		if i > 0 {
			vAssume(vOr(s > lastSec, vAnd(s == lastSec, ns >= lastNs)))
		}
		lastSec, lastNs = s, ns
		src.n = vU64()
		if i > 0 {
			vAssume(src.n >= prevCnt || !inited)
		}
		k.doSample(now)
		if src.n == 0 {
			continue
		}
		if !inited {
			inited = true
			prevCnt, prevSec, prevNs = src.n, s, ns
			vAssert(vAnd(k.Xps10s() == 0, vAnd(k.Xps30s() == 0, k.Xps300s() == 0)), "first non-zero observation only initialises")
			continue
		}
		due := vOr(prevSec+10 < s, vAnd(prevSec+10 == s, prevNs <= ns))
		if due {
			d := int64(src.n - prevCnt)
			want := vIteF64(d > 0, specRate(d, 10000), 0)
			rateIs(k.Xps10s(), want, "10 s rate equals growth since the previous 10 s sample / 10 s")
			prevCnt, prevSec, prevNs = src.n, s, ns
		}
		vAssert(vAnd(finiteNonNeg(k.Xps10s()), vAnd(finiteNonNeg(k.Xps30s()), finiteNonNeg(k.Xps300s()))), "all reported rates finite and non-negative")
	}
	vReach("history")
}

// HarnessC20_Average: the average equals the total increase over the time since the first
// non-zero observation.
func HarnessC20_Average() {
	src := &symSource{}
	k := newKxps(nil, src)
	t0, s0, n0 := vTime()
	src.n = vU64()
	first := k.sampleAverage(t0)
	vAssert(first == 0, "first observation yields 0")
	c0 := src.n
	t1, s1, n1 := vTime()
	src.n = vU64()
	got := k.sampleAverage(t1)
	vAssert(finiteNonNeg(got), "average is finite and non-negative")
	if c0 == 0 {
		// not yet initialised by a non-zero observation
		vAssert(got == 0, "no non-zero observation yet: 0")
		vReach("avg-uninit")
		return
	}
	d := int64(src.n - c0)
	// elapsed milliseconds through the same time arithmetic the library uses (Time.Sub)
	ms := int64(t1.Sub(t0) / time.Millisecond)
	_, _, _, _ = s0, n0, s1, n1
	if src.n == 0 || d <= 0 || ms <= 0 {
		vAssert(got == 0, "stalled/backwards counter or no elapsed time: 0")
		vReach("avg-zero")
		return
	}
	rateIs(got, float64(d)*1000/float64(ms), "average = total increase / time since first non-zero observation")
	vReach("avg")
}

// HarnessC20_Kbps: scaling to kbit/s and refusal before Start / after Close.
func HarnessC20_Kbps() {
	src := &symSource{}
	kb := NewKbps(nil, src).(*kbps)
	vAssert(vExpectPanic(func() { kb.Kbps10s() }), "Kbps10s before Start is refused")
	vAssert(vExpectPanic(func() { kb.Kbps30s() }), "Kbps30s before Start is refused")
	vAssert(vExpectPanic(func() { kb.Kbps300s() }), "Kbps300s before Start is refused")
	vAssert(vExpectPanic(func() { kb.Average() }), "Average before Start is refused")
	kr := NewKrps(nil, src).(*krps)
	vAssert(vExpectPanic(func() { kr.Rps10s() }), "Rps10s before Start is refused")
	vAssert(vExpectPanic(func() { kr.Average() }), "krps Average before Start is refused")
	// started (the sampling goroutine itself is driven by a wall-clock timer and not run here)
	kb.imp.started = true
	d := vI64()
	vAssume(d > 0)
	w := []int64{10, 30, 300}[vChoice(3)]
	r := specRate(d, w*1000)
	kb.imp.r10s.rps, kb.imp.r30s.rps, kb.imp.r300s.rps = r, r, r
	for _, got := range []float64{kb.Kbps10s(), kb.Kbps30s(), kb.Kbps300s()} {
		rateIs(got, r*8/1000, "bitrate is the byte rate scaled to kbit/s")
		vAssert(finiteNonNeg(got), "bitrate finite and non-negative")
	}
	kb.Close()
	vAssert(vExpectPanic(func() { kb.Kbps10s() }), "Kbps10s after Close is refused")
	vReach("kbps")
}
