package logger

import (
	"bytes"
	"context"
	"fmt"
	"os"
)

// C18 (connection-id clauses): ids are unique however many goroutines create contexts at the
// same time; an aliased context carries exactly its source's id; a logging call selects the
// id of the context it was given.

func cidOf(ctx context.Context) (int, bool) {
	v, ok := ctx.Value(cidKey).(int)
	return v, ok
}

// HarnessC18_Unique: N goroutines each create one or two contexts concurrently.
func HarnessC18_Unique() {
	n := 2
	if vTier() == 1 {
		n = 2 + vChoice(3)
	}
	per := 1 + vChoice(2)
	res := make([]chan []int, n)
	for k := 0; k < n; k++ {
		res[k] = make(chan []int, 1)
		ch := res[k]
		go func() {
			var ids []int
			for j := 0; j < per; j++ {
				id, ok := cidOf(WithContext(context.Background()))
				if !ok {
					id = -1
				}
				ids = append(ids, id)
			}
			ch <- ids
		}()
	}
	var all []int
	for k := 0; k < n; k++ {
		all = append(all, <-res[k]...)
	}
	for a := 0; a < len(all); a++ {
		vAssert(all[a] >= 0, "a created context carries an id")
		for b := a + 1; b < len(all); b++ {
			vAssert(all[a] != all[b], "every created context carries a different id")
		}
	}
	vReach("unique")
}

type cidObject struct{ id int }

func (c *cidObject) Cid() int { return c.id }

// HarnessC18_Alias: an aliased context carries exactly its source's id; a source without id
// (or a nil source) gets a fresh one that no other context has.
func HarnessC18_Alias() {
	parent := context.Background()
	if vChoice(2) == 1 {
		parent = WithContext(parent) // a parent that already carries an id of its own
	}
	pid, phas := cidOf(parent)
	switch vChoice(3) {
	case 0:
		src := WithContext(context.Background())
		sid, _ := cidOf(src)
		al := AliasContext(parent, src)
		aid, ok := cidOf(al)
		vAssert(ok && aid == sid, "an aliased context carries exactly its source's id")
		vReach("alias-src")
	case 1:
		al := AliasContext(parent, context.Background())
		aid, ok := cidOf(al)
		vAssert(ok, "aliasing a source without id creates an id")
		vAssert(!phas || aid != pid, "the fresh id differs from the parent's")
		other, _ := cidOf(WithContext(context.Background()))
		vAssert(other != aid, "a later context does not reuse the alias's fresh id")
		vReach("alias-fresh")
	case 2:
		al := AliasContext(parent, nil)
		aid, ok := cidOf(al)
		vAssert(ok, "aliasing a nil source creates an id")
		other, _ := cidOf(WithContext(context.Background()))
		vAssert(other != aid, "a later context does not reuse the alias's fresh id")
		vReach("alias-nil")
	}
}

// HarnessC18_Prefix: which id a logging call selects, per kind of context and per
// formatting path (Println-style and Printf-style).
func HarnessC18_Prefix() {
	lp := &loggerPlus{}
	pid := os.Getpid()
	id := []int{0, 7, 1000, -3}[vChoice(4)] // concrete: the prefix is built by fmt, which the engine runs only on concrete values
	kind := vChoice(4)
	var ctx Context
	wantArgs := []interface{}{}
	wantFmt := "%v"
	switch kind {
	case 0: // nil context: just [pid]
		ctx = nil
		wantArgs = []interface{}{pid}
		wantFmt = "[%v] %v"
	case 1: // an application object exposing its own connection id
		ctx = &cidObject{id: id}
		wantArgs = []interface{}{pid, id}
		wantFmt = "[%v][%v] %v"
	case 2: // a library-made context.Context
		c := WithContext(context.Background())
		id, _ = cidOf(c)
		ctx = c
		wantArgs = []interface{}{pid, id}
		wantFmt = "[%v][%v] %v"
	case 3: // a context.Context without id: no prefix
		ctx = context.Background()
	}
	// Printf path
	f, args := lp.contextFormatf(ctx, "%v", "m")
	vAssert(f == wantFmt, "Printf-style prefix format for this kind of context")
	ok := len(args) == len(wantArgs)+1
	if ok {
		for k := range wantArgs {
			got, isInt := args[k].(int)
			ok = ok && isInt && got == wantArgs[k].(int)
		}
	}
	vAssert(ok, "Printf-style prefix carries [pid] and the id of the context that was passed")
	// Println path
	out := lp.contextFormat(ctx, "m")
	switch kind {
	case 0:
		vAssert(len(out) == 2 && out[0] == interface{}(fmt.Sprintf("[%v] ", pid)), "Println-style prefix is [pid] for a nil context")
	case 1:
		vAssert(len(out) == 2 && out[0] == interface{}(fmt.Sprintf("[%v][%v] ", pid, id)), "Println-style prefix carries the application object's connection id")
	case 2:
		vAssert(len(out) == 2 && out[0] == interface{}(fmt.Sprintf("[%v][%v]", pid, id)), "Println-style prefix carries the context's id")
	case 3:
		vAssert(len(out) == 1, "no prefix for a context.Context without id")
	}
	vReach("prefix")
}

type closableBuffer struct{ bytes.Buffer }

func (c *closableBuffer) Close() error { return nil }

// HarnessC18_Rotation: ids stay unique across switching and closing the log writer (a
// multi-step history: create, Switch/Close, create).
func HarnessC18_Rotation() {
	var ids []int
	mk := func() {
		id, ok := cidOf(WithContext(context.Background()))
		vAssert(ok, "a created context carries an id")
		ids = append(ids, id)
	}
	mk()
	switch vChoice(3) {
	case 0:
		Switch(&closableBuffer{})
	case 1:
		Switch(&bytes.Buffer{})
	case 2:
		Switch(&closableBuffer{})
		Close()
	}
	mk()
	if al, ok := cidOf(AliasContext(context.Background(), nil)); ok {
		ids = append(ids, al)
	}
	mk()
	for a := 0; a < len(ids); a++ {
		for b := a + 1; b < len(ids); b++ {
			vAssert(ids[a] != ids[b], "ids stay different from every other one created in the process, also across a switch of the log writer")
		}
	}
	vReach("rotation")
}
