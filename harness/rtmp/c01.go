package rtmp

import "math/rand"

// C01: every message written is read back identically.

type sentMsg struct {
	mt      MessageType
	sid     uint32
	ts      uint64
	payload []byte
}

func payloadBound() int {
	if vTier() == 1 {
		return 10
	}
	return 5
}

// HarnessC01_Header: the C0/C3 headers the writer generates are parsed back by the reader to
// the same fields, for every timestamp below 2^31, every 24-bit payload length, every type and
// stream id; extended-timestamp bytes are present iff the timestamp is >= 0xFFFFFF.
func HarnessC01_Header() {
	m := NewStreamMessage(0)
	m.streamID = vU32()
	m.betterCid = chunkID(2 + vChoice(7)) // 2..8, the chunk streams the library uses
	m.MessageType = MessageType(vU8())
	m.Timestamp = uint64(vU32())
	vAssume(m.Timestamp < 1<<31)
	m.payloadLength = vU32()
	vAssume(vAnd(m.payloadLength >= 1, m.payloadLength < 1<<24))
	c0, err := m.generateC0Header()
	vAssert(err == nil, "C0 header generated")
	c3, err := m.generateC3Header()
	vAssert(err == nil, "C3 header generated")
	ext := m.Timestamp >= 0xffffff
	if ext {
		vAssert(vAnd(len(c0) == 16, len(c3) == 5), "extended timestamp bytes present when timestamp >= 0xFFFFFF")
		vReach("hdr-ext")
	} else {
		vAssert(vAnd(len(c0) == 12, len(c3) == 1), "no extended timestamp bytes below 0xFFFFFF")
		vReach("hdr-plain")
	}
	d := newDuplex()
	d.in.data = append(append([]byte(nil), c0...), c3...)
	p := NewProtocol(d)
	format, cid, err := p.readBasicHeader()
	vAssert(vAnd(err == nil, vAnd(format == 0, cid == m.betterCid)), "C0 basic header read back: fmt 0 and the chunk stream id")
	chunk := newChunkStream()
	chunk.cid = cid
	err = p.readMessageHeader(chunk, format)
	vAssert(err == nil, "C0 message header read back")
	if err != nil {
		return
	}
	h := chunk.header
	vAssert(vAnd(h.Timestamp == m.Timestamp, vAnd(h.payloadLength == m.payloadLength, vAnd(h.MessageType == m.MessageType, h.streamID == m.streamID))), "timestamp, length, type and stream id identical")
	format, cid, err = p.readBasicHeader()
	vAssert(vAnd(err == nil, vAnd(format == 3, cid == m.betterCid)), "C3 basic header read back: fmt 3 and the chunk stream id")
	err = p.readMessageHeader(chunk, format)
	vAssert(err == nil, "C3 header read back")
	if err == nil {
		vAssert(chunk.header.Timestamp == m.Timestamp, "timestamp unchanged by a continuation chunk")
		_, e2 := p.r.ReadByte()
		vAssert(e2 != nil, "C3 header fully consumed")
	}
}

// genMessage draws one data message (non-control type) with symbolic fields.
func genMessage(viaNewMessage bool) *Message { return genMessageMax(viaNewMessage, payloadBound()) }

func genMessageMax(viaNewMessage bool, maxPayload int) *Message {
	var m *Message
	if viaNewMessage {
		m = NewMessage()
		m.streamID = vU32()
	} else {
		m = NewStreamMessage(0)
		m.streamID = vU32()
	}
	m.MessageType = MessageType(vU8())
	// control messages that the reader interprets (1 set chunk size, 4 user control,
	// 5 window ack) are sent through WritePacket with well-formed bodies; abort (2) is excluded
	vAssume(vAnd(vAnd(m.MessageType != 1, m.MessageType != 2), vAnd(m.MessageType != 4, m.MessageType != 5)))
	m.Timestamp = uint64(vU32())
	vAssume(m.Timestamp < 1<<31)
	m.Payload = vBytes(1 + vChoice(maxPayload))
	return m
}

// HarnessC01_Session: endpoint A writes a sequence of messages, possibly announcing a new
// chunk size (any value in [1, 2^31-1]) in between; endpoint B reads exactly that sequence,
// however the transport splits the bytes.
func HarnessC01_Session() {
	ab := newDuplex() // A's transport; A.out is delivered to B.in
	a := NewProtocol(ab)
	k := 1 + vChoice(2)
	if vTier() == 1 {
		k = 1 + vChoice(3)
	}
	viaNew := vChoice(2) == 1
	var sent []sentMsg
	var marks []int
	for i := 0; i < k; i++ {
		if vChoice(2) == 0 {
			// announce a chunk size for the A->B direction
			cs := vU32()
			vAssume(vAnd(cs >= 1, cs <= 0x7fffffff))
			pkt := NewSetChunkSize()
			pkt.ChunkSize = cs
			err := a.WritePacket(pkt, 0)
			vAssert(err == nil, "WritePacket(SetChunkSize) succeeds")
			sent = append(sent, sentMsg{mt: MessageTypeSetChunkSize, sid: 0, ts: 0, payload: []byte{byte(cs >> 24), byte(cs >> 16), byte(cs >> 8), byte(cs)}})
			marks = append(marks, len(ab.out.data))
		}
		maxp := payloadBound()
		if vTier() == 1 && k == 3 {
			maxp = 1 // three-message sessions: one-byte payloads
		}
		if vTier() == 1 && k == 2 {
			maxp = 4
		}
		m := genMessageMax(viaNew, maxp)
		if i > 0 && vTier() == 0 {
			// later messages of the quick tier: 1 or 3 payload bytes
			vAssume(len(m.Payload) == 1 || len(m.Payload) == 3)
		}
		sent = append(sent, sentMsg{mt: m.MessageType, sid: m.streamID, ts: m.Timestamp, payload: append([]byte(nil), m.Payload...)})
		err := a.WriteMessage(m)
		vAssert(err == nil, "WriteMessage succeeds on a working transport")
		marks = append(marks, len(ab.out.data))
	}
	ba := newDuplex()
	ba.in.data = ab.out.data
	segmentStream(ba.in, marks)
	b := NewProtocol(ba)
	for _, s := range sent {
		m, err := b.ReadMessage()
		vAssert(err == nil, "ReadMessage returns each written message")
		if err != nil {
			return
		}
		vAssert(vAnd(m.MessageType == s.mt, vAnd(m.streamID == s.sid, m.Timestamp == s.ts)), "type, stream id and timestamp identical")
		vAssert(len(m.Payload) == len(s.payload), "payload length identical")
		if len(m.Payload) == len(s.payload) {
			vAssert(vEqBytes(m.Payload, s.payload), "payload bytes identical")
		}
	}
	_, err := b.ReadMessage()
	vAssert(err != nil, "nothing but the written messages arrives")
	vReach("session")
}

// HarnessC01_Handshake: the simple handshake (C0 C1 / S0 S1 S2 / C2) completes over a
// segmented transport, the peers echo each other's 1536 bytes, and a message written right
// after it is read back identically from the same byte stream.
func HarnessC01_Handshake() {
	hc := NewHandshake(rand.New(&constSource{x: 1}))
	hsrv := NewHandshake(rand.New(&constSource{x: 2}))
	c2s := &sinkWriter{failAt: -1}
	s2c := &sinkWriter{failAt: -1}
	vAssert(hc.WriteC0S0(c2s) == nil, "client writes C0")
	vAssert(hc.WriteC1S1(c2s) == nil, "client writes C1")
	chunk := []int{0, 1, 7, 1535, 1536, 1537}[vChoice(6)]
	sr := &segReader{data: c2s.data, cut: -1, chunk: chunk}
	c0, err := hsrv.ReadC0S0(sr)
	vAssert(vAnd(err == nil, len(c0) == 1), "server reads C0")
	if err != nil {
		return
	}
	vAssert(c0[0] == 3, "C0 is RTMP version 3")
	c1, err := hsrv.ReadC1S1(sr)
	vAssert(vAnd(err == nil, len(c1) == 1536), "server reads the 1536 bytes of C1")
	if err != nil {
		return
	}
	vAssert(vEqBytes(c1, c2s.data[1:1537]), "C1 arrives unchanged")
	vAssert(hsrv.WriteC0S0(s2c) == nil, "server writes S0")
	vAssert(hsrv.WriteC1S1(s2c) == nil, "server writes S1")
	vAssert(hsrv.WriteC2S2(s2c, c1) == nil, "server writes S2")
	cr := &segReader{data: s2c.data, cut: -1, chunk: chunk}
	s0, err := hc.ReadC0S0(cr)
	vAssert(vAnd(err == nil, len(s0) == 1), "client reads S0")
	s1, err := hc.ReadC1S1(cr)
	vAssert(vAnd(err == nil, len(s1) == 1536), "client reads S1")
	s2, err := hc.ReadC2S2(cr)
	vAssert(vAnd(err == nil, len(s2) == 1536), "client reads S2")
	if err != nil {
		return
	}
	vAssert(vEqBytes(s2, c1), "S2 echoes C1")
	vAssert(hc.WriteC2S2(c2s, s1) == nil, "client writes C2")
	// the session continues on the same byte stream
	a := NewProtocol(&duplex{in: &segReader{cut: -1}, out: c2s})
	m := genMessage(false)
	vAssert(a.WriteMessage(m) == nil, "first message after the handshake is written")
	sr.data = c2s.data
	c2, err := hsrv.ReadC2S2(sr)
	vAssert(vAnd(err == nil, len(c2) == 1536), "server reads C2")
	if err != nil {
		return
	}
	vAssert(vEqBytes(c2, s1), "C2 echoes S1")
	b := NewProtocol(&duplex{in: sr, out: &sinkWriter{failAt: -1}})
	got, err := b.ReadMessage()
	vAssert(err == nil, "first message after the handshake is read")
	if err == nil {
		vAssert(vAnd(got.MessageType == m.MessageType, vAnd(got.streamID == m.streamID, got.Timestamp == m.Timestamp)), "message after handshake: type, stream id, timestamp identical")
		vAssert(len(got.Payload) == len(m.Payload), "message after handshake: payload length")
		if len(got.Payload) == len(m.Payload) {
			vAssert(vEqBytes(got.Payload, m.Payload), "message after handshake: payload identical")
		}
	}
	vReach("handshake")
}

// HarnessC01_Chunked: messages at and around the default chunk size and the 16-bit
// boundary are chunked by the writer and reassembled by the reader (no Set Chunk Size, or a
// fixed one), under forked read segmentation.
func HarnessC01_Chunked() {
	sizes := []int{127, 128, 129, 257}
	if vTier() == 1 {
		sizes = []int{127, 128, 129, 255, 256, 257, 4095, 4096, 4097, 65535, 65536}
	}
	n := sizes[vChoice(len(sizes))]
	ab := newDuplex()
	a := NewProtocol(ab)
	var sent []sentMsg
	var marks []int
	if vChoice(2) == 1 {
		cs := []uint32{1, 127, 128, 129, 4096}[vChoice(5)]
		if cs == 1 && n > 300 {
			cs = 100
		}
		pkt := NewSetChunkSize()
		pkt.ChunkSize = cs
		vAssert(a.WritePacket(pkt, 0) == nil, "WritePacket(SetChunkSize) succeeds")
		sent = append(sent, sentMsg{mt: MessageTypeSetChunkSize, payload: []byte{byte(cs >> 24), byte(cs >> 16), byte(cs >> 8), byte(cs)}})
		marks = append(marks, len(ab.out.data))
	}
	m := NewStreamMessage(0)
	m.streamID = vU32()
	m.MessageType = MessageType(vU8())
	vAssume(vAnd(vAnd(m.MessageType != 1, m.MessageType != 2), vAnd(m.MessageType != 4, m.MessageType != 5)))
	m.Timestamp = uint64(vU32())
	vAssume(m.Timestamp < 1<<31)
	m.Payload = vPattern(n, 11)
	m.Payload[0], m.Payload[n/2], m.Payload[n-1] = vU8(), vU8(), vU8()
	sent = append(sent, sentMsg{mt: m.MessageType, sid: m.streamID, ts: m.Timestamp, payload: append([]byte(nil), m.Payload...)})
	vAssert(a.WriteMessage(m) == nil, "WriteMessage succeeds")
	marks = append(marks, len(ab.out.data))
	// a short message afterwards stays aligned
	m2 := genMessage(false)
	vAssume(len(m2.Payload) == 2)
	sent = append(sent, sentMsg{mt: m2.MessageType, sid: m2.streamID, ts: m2.Timestamp, payload: append([]byte(nil), m2.Payload...)})
	vAssert(a.WriteMessage(m2) == nil, "WriteMessage succeeds")
	ba := newDuplex()
	ba.in.data = ab.out.data
	segmentStream(ba.in, marks)
	b := NewProtocol(ba)
	for _, s := range sent {
		got, err := b.ReadMessage()
		vAssert(err == nil, "ReadMessage returns each written message")
		if err != nil {
			return
		}
		vAssert(vAnd(got.MessageType == s.mt, vAnd(got.streamID == s.sid, got.Timestamp == s.ts)), "type, stream id and timestamp identical")
		vAssert(len(got.Payload) == len(s.payload), "payload length identical")
		if len(got.Payload) == len(s.payload) {
			vAssert(vEqBytes(got.Payload, s.payload), "payload bytes identical")
		}
	}
	vReach("chunked")
}

// HarnessC01_Duplex: both endpoints read and write; the chunk size is a setting of each
// direction. A and B each optionally announce a chunk size (any value) and write a message;
// each then reads what the other sent, writes a second message and reads the other's second
// message. Every message arrives as written.
func HarnessC01_Duplex() {
	da, db := newDuplex(), newDuplex()
	a, b := NewProtocol(da), NewProtocol(db)
	type side struct {
		p    *Protocol
		d    *duplex
		sent []sentMsg
	}
	sa, sb := &side{p: a, d: da}, &side{p: b, d: db}
	announce := func(s *side) {
		if vChoice(2) == 1 {
			return
		}
		cs := vU32()
		vAssume(vAnd(cs >= 1, cs <= 0x7fffffff))
		pkt := NewSetChunkSize()
		pkt.ChunkSize = cs
		err := s.p.WritePacket(pkt, 0)
		vAssert(err == nil, "WritePacket(SetChunkSize) succeeds")
		s.sent = append(s.sent, sentMsg{mt: MessageTypeSetChunkSize, payload: []byte{byte(cs >> 24), byte(cs >> 16), byte(cs >> 8), byte(cs)}})
	}
	write := func(s *side, n int) {
		m := genMessageMax(false, 1)
		m.Payload = vBytes(n)
		s.sent = append(s.sent, sentMsg{mt: m.MessageType, sid: m.streamID, ts: m.Timestamp, payload: append([]byte(nil), m.Payload...)})
		vAssert(s.p.WriteMessage(m) == nil, "WriteMessage succeeds on a working transport")
	}
	read := func(s, from *side, label string) bool {
		s.d.in.data = from.d.out.data
		for _, w := range from.sent {
			m, err := s.p.ReadMessage()
			vAssert(err == nil, label)
			if err != nil {
				return false
			}
			vAssert(vAnd(m.MessageType == w.mt, vAnd(m.streamID == w.sid, m.Timestamp == w.ts)), "type, stream id and timestamp identical")
			vAssert(len(m.Payload) == len(w.payload), "payload length identical")
			if len(m.Payload) == len(w.payload) {
				vAssert(vEqBytes(m.Payload, w.payload), "payload bytes identical")
			}
		}
		from.sent = nil
		return true
	}
	announce(sa)
	write(sa, 3)
	announce(sb)
	write(sb, 3)
	if !read(sa, sb, "A reads what B wrote, whatever chunk size A announced for its own direction") {
		return
	}
	if !read(sb, sa, "B reads what A wrote, whatever chunk size B announced for its own direction") {
		return
	}
	// second round: each side has now seen the other's announcement
	write(sa, 2)
	write(sb, 2)
	if !read(sa, sb, "A reads B's second message") {
		return
	}
	if !read(sb, sa, "B reads A's second message") {
		return
	}
	vReach("duplex")
}
