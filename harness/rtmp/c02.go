package rtmp

// C02: the reader decodes every specification-conformant chunk stream.
//
// refSender is an independent chunker written from RTMP 1.0 section 5.3.1: basic header in
// 1/2/3-byte form, message header types 0-3 with delta accumulation and field inheritance,
// extended timestamps (on fmt 0/1/2 when the 24-bit field would be >= 0xFFFFFF, and repeated
// on the fmt-3 continuation chunks of such a message), chunking by the current chunk size,
// interleaving of chunk streams at chunk granularity, Set Chunk Size between messages.

type refCS struct {
	csid    uint32
	form    int // 1, 2 or 3 byte basic header
	started bool
	ts      uint32 // timestamp of the last message (32-bit wrap)
	delta   uint32 // delta to repeat for a fmt-3 new message
	length  int
	mt      uint8
	sid     uint32
	hadExt  bool
	extVal  uint32
	rem     []byte // unsent payload of the message in progress
	cur     *expMsg
}

type expMsg struct {
	mt      uint8
	sid     uint32
	ts      uint32 // specification timestamp reduced to 31 bits
	payload []byte
}

type refSender struct {
	out       []byte
	chunkSize uint32
	done      []*expMsg
	marks     []int
}

func refBasic(format uint8, csid uint32, form int) []byte {
	switch form {
	case 1:
		return []byte{format<<6 | uint8(csid)}
	case 2:
		return []byte{format << 6, uint8(csid - 64)}
	}
	return []byte{format<<6 | 1, uint8(csid - 64), uint8((csid - 64) >> 8)}
}

func be24(v uint32) []byte { return []byte{byte(v >> 16), byte(v >> 8), byte(v)} }
func be32(v uint32) []byte { return []byte{byte(v >> 24), byte(v >> 16), byte(v >> 8), byte(v)} }

// payloadChunk emits up to chunkSize bytes of c.rem; completes the message when empty.
func (s *refSender) payloadChunk(c *refCS) {
	n := len(c.rem)
	if uint32(n) > s.chunkSize {
		n = int(s.chunkSize)
	}
	s.out = append(s.out, c.rem[:n]...)
	c.rem = c.rem[n:]
	if len(c.rem) == 0 {
		s.done = append(s.done, c.cur)
		c.cur = nil
	}
	s.marks = append(s.marks, len(s.out))
}

// first emits the first chunk of a new message on c with header type format. tsOrDelta is the
// absolute timestamp (fmt 0) or the delta (fmt 1, 2); for fmt 3 the previous delta is reused.
func (s *refSender) first(c *refCS, format uint8, tsOrDelta uint32, length int, mt uint8, sid uint32, payload []byte) {
	s.out = append(s.out, refBasic(format, c.csid, c.form)...)
	field := tsOrDelta
	ext := tsOrDelta >= 0xffffff
	if ext {
		field = 0xffffff
	}
	switch format {
	case 0:
		c.ts = tsOrDelta
		c.delta = tsOrDelta
		c.length, c.mt, c.sid = length, mt, sid
		s.out = append(s.out, be24(field)...)
		s.out = append(s.out, be24(uint32(length))...)
		s.out = append(s.out, mt, byte(sid), byte(sid>>8), byte(sid>>16), byte(sid>>24))
	case 1:
		c.ts += tsOrDelta
		c.delta = tsOrDelta
		c.length, c.mt = length, mt
		s.out = append(s.out, be24(field)...)
		s.out = append(s.out, be24(uint32(length))...)
		s.out = append(s.out, mt)
	case 2:
		c.ts += tsOrDelta
		c.delta = tsOrDelta
		s.out = append(s.out, be24(field)...)
	case 3:
		c.ts += c.delta
		ext = c.hadExt
		tsOrDelta = c.extVal
	}
	if ext {
		s.out = append(s.out, be32(tsOrDelta)...)
	}
	c.hadExt, c.extVal = ext, tsOrDelta
	c.started = true
	c.rem = payload
	c.cur = &expMsg{mt: c.mt, sid: c.sid, ts: c.ts & 0x7fffffff, payload: payload}
	s.payloadChunk(c)
}

// cont emits a continuation chunk (fmt 3) of the message in progress on c.
func (s *refSender) cont(c *refCS) {
	s.out = append(s.out, refBasic(3, c.csid, c.form)...)
	if c.hadExt {
		s.out = append(s.out, be32(c.extVal)...)
	}
	s.payloadChunk(c)
}

// setChunkSize emits a Set Chunk Size message on chunk stream 2 (fmt 0) and applies it.
func (s *refSender) setChunkSize(ctl *refCS, cs uint32) {
	s.first(ctl, 0, 0, 4, 1, 0, be32(cs))
	s.chunkSize = cs
}

// newSlot draws a chunk stream with a symbolic id in the range of a forked basic-header form.
func newSlot(others []*refCS) *refCS {
	c := &refCS{form: 1 + vChoice(3)}
	id := vU32()
	switch c.form {
	case 1:
		vAssume(vAnd(id >= 3, id <= 63))
	case 2:
		vAssume(vAnd(id >= 64, id <= 319))
	case 3:
		vAssume(vAnd(id >= 64, id <= 65599))
	}
	for _, o := range others {
		vAssume(id != o.csid)
	}
	c.csid = id
	return c
}

func c02Payload() []byte {
	max := 4
	if vTier() == 1 {
		max = 6
	}
	return vBytes(1 + vChoice(max))
}

// checkMessages reads the expected messages back through the library.
func checkMessages(stream []byte, marks []int, exp []*expMsg) {
	d := newDuplex()
	d.in.data = stream
	if marks != nil {
		segmentStream(d.in, marks)
	}
	p := NewProtocol(d)
	for _, e := range exp {
		m, err := p.ReadMessage()
		vAssert(err == nil, "ReadMessage decodes a conformant chunk stream")
		if err != nil {
			return
		}
		vAssert(vAnd(uint8(m.MessageType) == e.mt, m.streamID == e.sid), "message type and stream id as chunked (inheritance rules)")
		vAssert(m.Timestamp == uint64(e.ts), "timestamp as the specification defines it (31 bits)")
		vAssert(len(m.Payload) == len(e.payload), "payload length as chunked")
		if len(m.Payload) == len(e.payload) {
			vAssert(vEqBytes(m.Payload, e.payload), "payload bytes as chunked")
		}
	}
	_, err := p.ReadMessage()
	vAssert(err != nil, "no message beyond the chunked ones")
}

func notControl(mt uint8) bool {
	// 1 set chunk size (sent explicitly), 2 abort (excluded by the property), 4 and 5 are decoded
	// by the reader and need well-formed bodies
	return vAnd(vAnd(mt != 1, mt != 2), vAnd(mt != 4, mt != 5))
}

// HarnessC02_Headers: a sequence of 2-3 single-chunk messages on one chunk stream (basic
// header form forked, id symbolic), the later ones with forked header types 0-3: field
// inheritance, delta accumulation and extended timestamps.
func HarnessC02_Headers() {
	s := &refSender{chunkSize: 128}
	c := newSlot(nil)
	n := 2
	if vTier() == 1 {
		n = 2 + vChoice(2)
	}
	mt, sid := vU8(), vU32()
	vAssume(notControl(mt))
	pl := c02Payload()
	s.first(c, 0, vU32(), len(pl), mt, sid, pl)
	for i := 1; i < n; i++ {
		format := uint8(vChoice(4))
		switch format {
		case 0:
			mt, sid = vU8(), vU32()
			vAssume(notControl(mt))
			pl = c02Payload()
			s.first(c, 0, vU32(), len(pl), mt, sid, pl)
		case 1:
			mt = vU8()
			vAssume(notControl(mt))
			pl = c02Payload()
			delta := vU32()
			s.first(c, 1, delta, len(pl), mt, 0, pl)
			if delta >= 0xffffff {
				extDeltaCase(s, 1)
				return
			}
		case 2:
			pl = vBytes(c.length)
			delta := vU32()
			s.first(c, 2, delta, 0, 0, 0, pl)
			if delta >= 0xffffff {
				extDeltaCase(s, 2)
				return
			}
		case 3:
			// a fmt-3 chunk starting a new message after an extended-timestamp header is ambiguous
			// in the specification and excluded (DESIGN Appendix C.1)
			if c.hadExt {
				vAssume(false)
			}
			pl = vBytes(c.length)
			s.first(c, 3, 0, 0, 0, 0, pl)
		}
	}
	marks := s.marks
	if n == 3 {
		marks = nil // three-message sequences are read whole (with read segmentation the space did not finish in the thorough budget)
	}
	checkMessages(s.out, marks, s.done)
	vReach("headers")
}

// extDeltaCase: fmt 1/2 with an extended timestamp field carries a DELTA by the specification;
// the library documents that it takes the extended field as the absolute time.
func extDeltaCase(s *refSender, format int) {
	d := newDuplex()
	d.in.data = s.out
	p := NewProtocol(d)
	var last *Message
	ok := true
	for range s.done {
		m, err := p.ReadMessage()
		if err != nil {
			ok = false
			break
		}
		last = m
	}
	want := s.done[len(s.done)-1]
	same := ok
	if ok {
		same = last.Timestamp == uint64(want.ts)
	}
	vKnown("KF-C02-extdelta", same, "fmt 1/2 header with extended timestamp: the extended field is a delta to add to the previous timestamp")
	vReach("extdelta")
}

// HarnessC02_Interleave: two chunk streams, a Set Chunk Size with symbolic size first, two
// multi-chunk messages whose chunks are interleaved in a forked order.
func HarnessC02_Interleave() {
	s := &refSender{chunkSize: 128}
	ctl := &refCS{csid: 2, form: 1}
	cs := vU32()
	vAssume(vAnd(cs >= 1, cs <= 0x7fffffff))
	s.setChunkSize(ctl, cs)
	a := newSlot(nil)
	b := newSlot([]*refCS{a})
	type pending struct {
		c  *refCS
		pl []byte
	}
	var todo []pending
	for _, c := range []*refCS{a, b} {
		todo = append(todo, pending{c, c02Payload()})
	}
	startedA, startedB := false, false
	for {
		// candidates: start A, start B, continue A, continue B
		var cand []int
		if !startedA {
			cand = append(cand, 0)
		}
		if !startedB {
			cand = append(cand, 1)
		}
		if startedA && a.cur != nil {
			cand = append(cand, 2)
		}
		if startedB && b.cur != nil {
			cand = append(cand, 3)
		}
		if len(cand) == 0 {
			break
		}
		switch cand[vChoice(len(cand))] {
		case 0:
			mt := vU8()
			vAssume(notControl(mt))
			s.first(a, 0, vU32(), len(todo[0].pl), mt, vU32(), todo[0].pl)
			startedA = true
		case 1:
			mt := vU8()
			vAssume(notControl(mt))
			s.first(b, 0, vU32(), len(todo[1].pl), mt, vU32(), todo[1].pl)
			startedB = true
		case 2:
			s.cont(a)
		case 3:
			s.cont(b)
		}
	}
	exp := s.done
	checkMessages(s.out, nil, exp) // read segmentation is covered by C02_Headers and C01
	vReach("interleave")
}

// HarnessC02_Reject: streams that break the rules the reader relies on are rejected with an
// error instead of being mis-decoded.
func HarnessC02_Reject() {
	s := &refSender{chunkSize: 128}
	ctl := &refCS{csid: 2, form: 1}
	a := newSlot(nil)
	kind := vChoice(4)
	switch kind {
	case 0:
		// a fresh chunk stream that does not start with fmt 0
		format := uint8(1 + vChoice(3))
		pl := c02Payload()
		a.length, a.mt = len(pl), 8
		s.first(a, format, 5, len(pl), 8, 0, pl)
	case 1:
		// fmt 0 header inside an unfinished message
		s.setChunkSize(ctl, 2)
		pl := vBytes(3 + vChoice(2))
		s.first(a, 0, vU32(), len(pl), 8, vU32(), pl)
		s.first(a, 0, vU32(), len(pl), 8, vU32(), pl)
	case 2:
		// message length changed mid-message (fmt 1 continuation with another length)
		s.setChunkSize(ctl, 2)
		pl := vBytes(3 + vChoice(2))
		s.first(a, 0, vU32(), len(pl), 8, vU32(), pl)
		other := vU32() & 0xffffff
		vAssume(other != uint32(len(pl)))
		s.out = append(s.out, refBasic(1, a.csid, a.form)...)
		s.out = append(s.out, be24(0)...)
		s.out = append(s.out, be24(other)...)
		s.out = append(s.out, 8)
		s.out = append(s.out, pl[2:]...)
	case 3:
		// the documented librtmp form IS accepted: fresh chunk stream 2 starting with fmt 1
		s.out = append(s.out, 0x42, 0, 0, 0, 0, 0, 6, 4, 0, 6, 0, 0, 0x0d, 0x0f)
		d := newDuplex()
		d.in.data = s.out
		m, err := NewProtocol(d).ReadMessage()
		vAssert(err == nil, "librtmp ping on a fresh chunk stream 2 with fmt 1 is accepted")
		if err == nil {
			vAssert(vAnd(m.MessageType == 4, len(m.Payload) == 6), "librtmp ping decoded")
		}
		vReach("reject-librtmp-ok")
		return
	}
	d := newDuplex()
	d.in.data = s.out
	p := NewProtocol(d)
	var err error
	var got []*Message
	for i := 0; i < 4 && err == nil; i++ {
		var m *Message
		m, err = p.ReadMessage()
		if err == nil {
			got = append(got, m)
		}
	}
	vAssert(err != nil, "a stream that breaks the chunking rules is rejected with an error")
	for _, m := range got {
		// only the Set Chunk Size sent before the violation may have been delivered
		vAssert(m.MessageType == 1, "nothing is delivered from the rule-breaking part")
	}
	vReach("reject")
}

// HarnessC02_Rescale: a Set Chunk Size sent between the chunks of an unfinished message takes
// effect for the chunks that follow it, on every chunk stream.
func HarnessC02_Rescale() {
	s := &refSender{chunkSize: 128}
	ctl := &refCS{csid: 2, form: 1}
	cs := vU32()
	vAssume(vAnd(cs >= 1, cs <= 3))
	s.setChunkSize(ctl, cs)
	a := newSlot(nil)
	pl := vBytes(3 + vChoice(3))
	mt := vU8()
	vAssume(notControl(mt))
	s.first(a, 0, vU32(), len(pl), mt, vU32(), pl)
	// after k chunks of the message (forked), announce another size
	k := vChoice(3)
	for j := 0; j < k && a.cur != nil; j++ {
		s.cont(a)
	}
	cs2 := vU32()
	vAssume(vAnd(cs2 >= 1, cs2 <= 0x7fffffff))
	s.first(ctl, 3, 0, 4, 1, 0, be32(cs2))
	for ctl.cur != nil {
		s.cont(ctl) // the announcement itself is still chunked with the old size
	}
	s.chunkSize = cs2
	for a.cur != nil {
		s.cont(a)
	}
	checkMessages(s.out, nil, s.done)
	vReach("rescale")
}

// HarnessC02_Follow: header compression after a message that spanned several chunks. On one
// chunk stream a fmt-0 message of 1-3 chunks is followed by 1-2 messages that start with a
// fmt 1, 2 or 3 header (fmt 3: same delta as before, which after a fmt-0 header is its
// timestamp; RTMP 1.0 5.3.1.2.4), each again split into chunks. Timestamps and deltas are
// 16-bit values (large and extended ones are the subject of C02_Headers).
func HarnessC02_Follow() {
	s := &refSender{chunkSize: 128}
	ctl := &refCS{csid: 2, form: 1}
	s.setChunkSize(ctl, uint32(1+vChoice(3)))
	c := newSlot(nil)
	ts := vU32()
	vAssume(ts < 0x10000)
	mt := vU8()
	vAssume(notControl(mt))
	p1 := vBytes(1 + vChoice(3))
	s.first(c, 0, ts, len(p1), mt, vU32(), p1)
	for c.cur != nil {
		s.cont(c)
	}
	nmore := 1 + vChoice(2)
	for k := 0; k < nmore; k++ {
		f := uint8(1 + vChoice(3))
		d := vU32()
		vAssume(d < 0x10000)
		n, mt2 := c.length, c.mt
		if f == 1 {
			n = 1 + vChoice(3)
			mt2 = vU8()
			vAssume(notControl(mt2))
		}
		pl := vBytes(n)
		s.first(c, f, d, n, mt2, 0, pl)
		for c.cur != nil {
			s.cont(c)
		}
	}
	checkMessages(s.out, nil, s.done)
	vReach("follow")
}
