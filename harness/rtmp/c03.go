package rtmp

import (
	"math"

	"github.com/ossrs/go-oryx-lib/amf0"
)

// C03: packets survive encode, wire and decode with the right type.

func symNumber() amf0.Number { return amf0.Number(math.Float64frombits(vU64())) }
func symString(max int) amf0.String {
	if vTier() == 1 && vChoice(5) == 0 {
		n := []int{255, 256, 65535}[vChoice(3)]
		b := vPattern(n, 33)
		b[0], b[n-1] = vU8(), vU8()
		return amf0.String(string(b))
	}
	return amf0.String(vStr(vChoice(max + 1 + 2*vTier())))
}

// symObject: an AMF0 object with 0-1 properties (key 0-1 symbolic bytes, number or string value).
func symObject() *amf0.Object {
	o := amf0.NewObject()
	if vTier() == 1 && vChoice(3) == 0 {
		// two properties, the second a nested object
		o.Set(vStr(1), amf0.NewBoolean(vBool()))
		in := amf0.NewObject()
		in.Set(vStr(vChoice(2)), amf0.NewNumber(math.Float64frombits(vU64())))
		o.Set("n"+vStr(1), in)
		return o
	}
	if vChoice(2) == 1 {
		if vChoice(2) == 0 {
			o.Set(vStr(vChoice(2)), amf0.NewNumber(math.Float64frombits(vU64())))
		} else {
			o.Set(vStr(vChoice(2)), amf0.NewString(vStr(vChoice(2))))
		}
	}
	return o
}

func numEq(a, b amf0.Number) bool {
	return math.Float64bits(float64(a)) == math.Float64bits(float64(b))
}

func strEqA(a, b amf0.String) bool {
	if len(a) != len(b) {
		return false
	}
	return vEqStr(string(a), string(b))
}

func amfEq(a, b amf0.Amf0) bool {
	if a == nil || b == nil {
		return a == nil && b == nil
	}
	x, err1 := a.MarshalBinary()
	y, err2 := b.MarshalBinary()
	if err1 != nil || err2 != nil || len(x) != len(y) {
		return false
	}
	return vEqBytes(x, y)
}

// roundTrip checks len(Marshal) == Size(), and that a fresh packet of the same kind
// unmarshals the bytes and re-marshals to the same bytes.
func roundTrip(p Packet, fresh Packet, what string) ([]byte, bool) {
	data, err := p.MarshalBinary()
	vAssert(err == nil, what+": marshals")
	if err != nil {
		return nil, false
	}
	vAssert(len(data) == p.Size(), what+": marshals to exactly Size() bytes")
	err = fresh.UnmarshalBinary(data)
	vAssert(err == nil, what+": unmarshals its own encoding")
	if err != nil {
		return nil, false
	}
	again, err := fresh.MarshalBinary()
	vAssert(err == nil, what+": re-marshals")
	if err != nil {
		return nil, false
	}
	vAssert(len(again) == len(data), what+": re-marshal length")
	if len(again) == len(data) {
		vAssert(vEqBytes(again, data), what+": re-marshal reproduces the bytes")
	}
	return data, true
}

// genPacket draws one packet of a forked kind with symbolic field values and returns it with
// a fresh packet of the same kind and a field-equality check.
func genPacket(kind int) (p Packet, fresh Packet, eq func() bool, name string) {
	switch kind {
	case 0:
		x := NewConnectAppPacket()
		x.CommandObject = symObject()
		if vChoice(2) == 1 {
			x.Args = symObject()
		}
		y := NewConnectAppPacket()
		return x, y, func() bool {
			return vAnd(vAnd(strEqA(y.CommandName, x.CommandName), numEq(y.TransactionID, x.TransactionID)), vAnd(amfEq(y.CommandObject, x.CommandObject), (x.Args == nil) == (y.Args == nil) && (x.Args == nil || amfEq(x.Args, y.Args))))
		}, "connect"
	case 1:
		x := NewConnectAppResPacket(symNumber())
		x.CommandObject = symObject()
		if vChoice(2) == 1 {
			x.Args = symObject()
		}
		y := NewConnectAppResPacket(0)
		return x, y, func() bool {
			return vAnd(vAnd(strEqA(y.CommandName, x.CommandName), numEq(y.TransactionID, x.TransactionID)), vAnd(amfEq(y.CommandObject, x.CommandObject), (x.Args == nil) == (y.Args == nil) && (x.Args == nil || amfEq(x.Args, y.Args))))
		}, "connect response"
	case 2:
		x := NewCreateStreamPacket()
		x.TransactionID = symNumber()
		y := NewCreateStreamPacket()
		return x, y, func() bool {
			return vAnd(strEqA(y.CommandName, x.CommandName), vAnd(numEq(y.TransactionID, x.TransactionID), amfEq(y.CommandObject, x.CommandObject)))
		}, "createStream"
	case 3:
		x := NewCreateStreamResPacket(symNumber())
		x.StreamID = symNumber()
		y := NewCreateStreamResPacket(0)
		return x, y, func() bool {
			return vAnd(vAnd(strEqA(y.CommandName, x.CommandName), numEq(y.TransactionID, x.TransactionID)), vAnd(amfEq(y.CommandObject, x.CommandObject), numEq(y.StreamID, x.StreamID)))
		}, "createStream response"
	case 4:
		x := NewPublishPacket()
		x.TransactionID, x.StreamName, x.StreamType = symNumber(), symString(2), symString(1)
		y := NewPublishPacket()
		return x, y, func() bool {
			return vAnd(vAnd(strEqA(y.CommandName, x.CommandName), numEq(y.TransactionID, x.TransactionID)), vAnd(strEqA(y.StreamName, x.StreamName), strEqA(y.StreamType, x.StreamType)))
		}, "publish"
	case 5:
		x := NewPlayPacket()
		x.TransactionID, x.StreamName = symNumber(), symString(2)
		y := NewPlayPacket()
		return x, y, func() bool {
			return vAnd(vAnd(strEqA(y.CommandName, x.CommandName), numEq(y.TransactionID, x.TransactionID)), strEqA(y.StreamName, x.StreamName))
		}, "play"
	case 6:
		x := NewCallPacket()
		x.CommandName, x.TransactionID = symString(2), symNumber()
		switch vChoice(3) {
		case 0:
		case 1:
			x.CommandObject = amf0.NewNull()
		case 2:
			x.CommandObject = symObject()
			if vChoice(2) == 1 {
				x.Args = symObject()
			}
		}
		y := NewCallPacket()
		return x, y, func() bool {
			return vAnd(vAnd(strEqA(y.CommandName, x.CommandName), numEq(y.TransactionID, x.TransactionID)), vAnd(amfEq(y.CommandObject, x.CommandObject), amfEq(y.Args, x.Args)))
		}, "call"
	case 7:
		x := NewCloseStreamPacket()
		x.TransactionID = symNumber()
		y := NewCallPacket()
		return x, y, func() bool {
			return vAnd(strEqA(y.CommandName, x.CommandName), vAnd(numEq(y.TransactionID, x.TransactionID), amfEq(y.CommandObject, x.CommandObject)))
		}, "closeStream"
	case 8:
		x := NewSetChunkSize()
		x.ChunkSize = vU32()
		y := NewSetChunkSize()
		return x, y, func() bool { return y.ChunkSize == x.ChunkSize }, "SetChunkSize"
	case 9:
		x := NewWindowAcknowledgementSize()
		x.AckSize = vU32()
		y := NewWindowAcknowledgementSize()
		return x, y, func() bool { return y.AckSize == x.AckSize }, "WindowAcknowledgementSize"
	case 10:
		x := NewSetPeerBandwidth()
		x.Bandwidth, x.LimitType = vU32(), LimitType(vU8())
		y := NewSetPeerBandwidth()
		return x, y, func() bool { return vAnd(y.Bandwidth == x.Bandwidth, y.LimitType == x.LimitType) }, "SetPeerBandwidth"
	default:
		x := NewUserControl()
		x.EventType, x.EventData, x.ExtraData = EventType(vU16()), vI32(), vI32()
		// canonical field values: 1-byte event data for the FMS event, extra data only for SetBufferLength
		vAssume(vImplies(x.EventType == EventTypeFmsEvent0, vAnd(x.EventData >= 0, x.EventData <= 255)))
		vAssume(vImplies(x.EventType != EventTypeSetBufferLength, x.ExtraData == 0))
		y := NewUserControl()
		return x, y, func() bool {
			return vAnd(y.EventType == x.EventType, vAnd(y.EventData == x.EventData, y.ExtraData == x.ExtraData))
		}, "UserControl"
	}
}

const nPacketKinds = 12

// HarnessC03_Codec: every packet marshals to exactly Size() bytes, unmarshals back to equal
// field values and re-marshals to the same bytes.
func HarnessC03_Codec() {
	p, fresh, eq, name := genPacket(vChoice(nPacketKinds))
	if _, ok := roundTrip(p, fresh, name); ok {
		vAssert(eq(), name+": unmarshalled field values equal")
	}
	vReach("codec")
}

func isType(pkt Packet, kind int) bool {
	switch kind {
	case 0:
		_, ok := pkt.(*ConnectAppPacket)
		return ok
	case 2:
		_, ok := pkt.(*CreateStreamPacket)
		return ok
	case 4:
		_, ok := pkt.(*PublishPacket)
		return ok
	case 5:
		_, ok := pkt.(*PlayPacket)
		return ok
	case 6, 7:
		_, ok := pkt.(*CallPacket)
		return ok
	case 8:
		_, ok := pkt.(*SetChunkSize)
		return ok
	case 9:
		_, ok := pkt.(*WindowAcknowledgementSize)
		return ok
	case 10:
		_, ok := pkt.(*SetPeerBandwidth)
		return ok
	case 11:
		_, ok := pkt.(*UserControl)
		return ok
	}
	return false
}

// HarnessC03_Wire: a packet sent by one endpoint arrives at the peer as the packet type the
// protocol defines for it and re-marshals to the same payload.
func HarnessC03_Wire() {
	kinds := []int{0, 2, 4, 5, 6, 7, 8, 9, 10, 11} // requests and control packets (responses: see C03_Transactions)
	kind := kinds[vChoice(len(kinds))]
	p, _, _, name := genPacket(kind)
	if kind == 6 {
		// a generic call: a command name that is not one of the typed commands
		cp := p.(*CallPacket)
		for _, typed := range []amf0.String{commandConnect, commandCreateStream, commandPublish, commandPlay, commandResult, commandError} {
			if len(cp.CommandName) == len(typed) {
				vAssume(vNot(vEqStr(string(cp.CommandName), string(typed))))
			}
		}
	}
	payload, err := p.MarshalBinary()
	if err != nil {
		return
	}
	ab := newDuplex()
	a := NewProtocol(ab)
	sid := vChoice(3)
	vAssert(a.WritePacket(p, sid) == nil, name+": WritePacket succeeds")
	ba := newDuplex()
	ba.in.data = ab.out.data
	switch vChoice(3) {
	case 1:
		ba.in.chunk = 1 // the transport delivers one byte per read
	case 2:
		ba.in.first = 13 // the first read ends inside the message (12-byte header + 1)
	}
	b := NewProtocol(ba)
	m, err := b.ReadMessage()
	vAssert(err == nil, name+": peer reads the message")
	if err != nil {
		return
	}
	vAssert(vAnd(m.MessageType == p.Type(), m.streamID == uint32(sid)), name+": message type and stream id on the wire")
	got, err := b.DecodeMessage(m)
	vAssert(err == nil, name+": peer decodes the message")
	if err != nil {
		return
	}
	vAssert(isType(got, kind), name+": arrives as the packet type the protocol defines for it")
	again, err := got.MarshalBinary()
	vAssert(err == nil, name+": decoded packet re-marshals")
	if err == nil {
		vAssert(len(again) == len(payload), name+": re-marshalled payload length")
		if len(again) == len(payload) {
			vAssert(vEqBytes(again, payload), name+": re-marshals to the same payload")
		}
	}
	vReach("wire")
}

// HarnessC03_Transactions: histories of requests and responses with arbitrary transaction ids.
// A _result is decoded as the response type of the request sent with the same id, exactly
// once; a response without an outstanding request is an error, never a guess.
func HarnessC03_Transactions() {
	cb := newDuplex()
	c := NewProtocol(cb) // the client: sends requests, decodes responses
	type req struct {
		tid  amf0.Number
		kind int // 0 connect, 1 createStream
		live bool
	}
	var reqs []*req
	steps := 3
	if vTier() == 1 {
		steps = 5
	}
	for s := 0; s < steps; s++ {
		switch vChoice(3) {
		case 0:
			p := NewConnectAppPacket()
			vAssert(c.WritePacket(p, 0) == nil, "connect is written")
			for _, r := range reqs {
				if r.live && float64(r.tid) == 1.0 {
					r.live = false // same id re-used: the newer request replaces it
				}
			}
			reqs = append(reqs, &req{tid: 1.0, kind: 0, live: true})
		case 1:
			p := NewCreateStreamPacket()
			p.TransactionID = symNumber()
			vAssume(float64(p.TransactionID) > 0) // transaction ids of requests that expect a response are positive
			vAssert(c.WritePacket(p, 0) == nil, "createStream is written")
			for _, r := range reqs {
				if r.live && float64(r.tid) == float64(p.TransactionID) {
					r.live = false
				}
			}
			reqs = append(reqs, &req{tid: p.TransactionID, kind: 1, live: true})
		case 2:
			// a _result with an arbitrary transaction id arrives
			tid := symNumber()
			var res Packet
			if vChoice(2) == 0 {
				r := NewConnectAppResPacket(tid)
				res = r
			} else {
				r := NewCreateStreamResPacket(tid)
				r.StreamID = symNumber()
				res = r
			}
			payload, _ := res.MarshalBinary()
			m := NewMessage()
			m.MessageType = MessageTypeAMF0Command
			m.Payload = payload
			got, err := c.DecodeMessage(m)
			var match *req
			for _, r := range reqs {
				if r.live && float64(r.tid) == float64(tid) {
					match = r
				}
			}
			if match == nil {
				vAssert(err != nil, "a response without an outstanding request is an error, never a guess")
				vReach("tx-unmatched")
				continue
			}
			match.live = false // consumed exactly once
			_, isConn := res.(*ConnectAppResPacket)
			if (match.kind == 0) != isConn {
				// the body is the other response type's: decoding may fail, but must not invent a type
				if err == nil {
					_, gotConn := got.(*ConnectAppResPacket)
					vAssert(gotConn == (match.kind == 0), "response decoded as the response type of its request")
				}
				continue
			}
			vAssert(err == nil, "a response to an outstanding request decodes")
			if err != nil {
				continue
			}
			if match.kind == 0 {
				_, ok := got.(*ConnectAppResPacket)
				vAssert(ok, "_result of connect is a ConnectAppResPacket")
			} else {
				_, ok := got.(*CreateStreamResPacket)
				vAssert(ok, "_result of createStream is a CreateStreamResPacket")
			}
			again, e2 := got.MarshalBinary()
			if e2 == nil && len(again) == len(payload) {
				vAssert(vEqBytes(again, payload), "decoded response re-marshals to the same payload")
			}
			vReach("tx-matched")
		}
	}
	vReach("tx")
}

// HarnessC03_Expect: a typed wait returns the first arriving message / packet of the requested
// type, skipping the control and command traffic before it.
func HarnessC03_Expect() {
	ab := newDuplex()
	a := NewProtocol(ab)
	n := 2 + vChoice(2)
	var types []MessageType
	firstConnect, firstRes := -1, -1
	for i := 0; i < n; i++ {
		kind := vChoice(5)
		if kind == 4 && firstRes >= 0 {
			kind = 2 // one response per request: a second response to transaction 1 is rightly refused
		}
		switch kind {
		case 4:
			// the answer to the reader's own connect (the reader registers transaction 1 below)
			p := NewConnectAppResPacket(1)
			a.WritePacket(p, 0)
			types = append(types, p.Type())
			if firstRes < 0 {
				firstRes = i
			}
		case 0:
			p := NewWindowAcknowledgementSize()
			p.AckSize = vU32()
			a.WritePacket(p, 0)
			types = append(types, p.Type())
		case 1:
			p := NewUserControl()
			p.EventType, p.EventData = EventTypePingRequest, vI32()
			a.WritePacket(p, 0)
			types = append(types, p.Type())
		case 2:
			p := NewCloseStreamPacket()
			a.WritePacket(p, 1)
			types = append(types, p.Type())
		case 3:
			p := NewConnectAppPacket()
			a.WritePacket(p, 0)
			types = append(types, p.Type())
			if firstConnect < 0 {
				firstConnect = i
			}
		}
	}
	mk := func() *Protocol {
		d := newDuplex()
		d.in.data = ab.out.data
		p := NewProtocol(d)
		if firstRes >= 0 {
			p.WritePacket(NewConnectAppPacket(), 0) // the reader's own connect request, transaction 1
		}
		return p
	}
	// ExpectMessage(t): the first message of type t
	want := []MessageType{MessageTypeWindowAcknowledgementSize, MessageTypeUserControl, MessageTypeAMF0Command}[vChoice(3)]
	idx := -1
	for i, t := range types {
		if t == want {
			idx = i
			break
		}
	}
	m, err := mk().ExpectMessage(want)
	if idx < 0 {
		vAssert(err != nil, "ExpectMessage fails when no message of the type arrives")
	} else {
		vAssert(err == nil, "ExpectMessage finds the message")
		if err == nil {
			vAssert(m.MessageType == want, "ExpectMessage returns a message of the requested type")
			// it is the FIRST one: reading on yields the messages after idx
			vReach("expect-message")
		}
	}
	// ExpectPacket(&*ConnectAppPacket): the first connect
	var cp *ConnectAppPacket
	b := mk()
	_, err = b.ExpectPacket(&cp)
	if firstConnect < 0 {
		vAssert(err != nil, "ExpectPacket fails when no packet of the type arrives")
	} else {
		vAssert(vAnd(err == nil, cp != nil), "ExpectPacket returns the first packet of the requested type")
		rest := 0
		for {
			if _, e := b.ReadMessage(); e != nil {
				break
			}
			rest++
		}
		vAssert(rest == n-1-firstConnect, "ExpectPacket consumed exactly the traffic up to the first match")
		if cp != nil {
			vAssert(string(cp.CommandName) == "connect", "the packet returned by a wait for a connect request is a connect request")
		}
		vReach("expect-packet")
	}
	// ExpectPacket(&*ConnectAppResPacket): the first connect response, connect requests before it are skipped
	var rp *ConnectAppResPacket
	b2 := mk()
	_, err = b2.ExpectPacket(&rp)
	if firstRes < 0 {
		vAssert(err != nil, "ExpectPacket fails when no connect response arrives")
	} else {
		vAssert(vAnd(err == nil, rp != nil), "ExpectPacket returns the first connect response")
		rest := 0
		for {
			if _, e := b2.ReadMessage(); e != nil {
				break
			}
			rest++
		}
		vAssert(rest == n-1-firstRes, "ExpectPacket consumed exactly the traffic up to the first connect response")
		if rp != nil {
			vAssert(string(rp.CommandName) == "_result", "the packet returned by a wait for a connect response is a response")
		}
		vReach("expect-response")
	}
	vReach("expect")
}
