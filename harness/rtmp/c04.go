package rtmp

import (
	"io"
	"math"

	"github.com/ossrs/go-oryx-lib/amf0"
)

// C04: request/response matching holds with concurrent reader and writer.

// answeringTransport plays the peer: as soon as the last byte of request k has been handed to
// Write, the prepared response k becomes readable - possibly before WritePacket returns. In
// "slow write" mode Write additionally does not return until the reader has consumed that
// response (a blocking transport), which pins the adversarial order deterministically.
type answeringTransport struct {
	written   int
	reqEnd    []int    // stream offset at which request k is complete
	responses [][]byte // response k
	next      int
	ready     chan []byte   // responses that became readable
	consumed  chan struct{} // reader -> writer: response handled (slow-write mode)
	slow      bool
	cur       []byte
	failFrom  int // >= 0: every Write that starts at or beyond this stream offset fails (nothing is accepted)
}

func (t *answeringTransport) Write(p []byte) (int, error) {
	if t.failFrom >= 0 && t.written >= t.failFrom {
		return 0, io.ErrClosedPipe
	}
	t.written += len(p)
	for t.next < len(t.reqEnd) && t.written >= t.reqEnd[t.next] {
		t.ready <- t.responses[t.next]
		t.next++
		if t.slow {
			<-t.consumed
		}
	}
	return len(p), nil
}

func (t *answeringTransport) Read(p []byte) (int, error) {
	if len(t.cur) == 0 {
		b, ok := <-t.ready
		if !ok {
			return 0, io.EOF
		}
		t.cur = b
	}
	n := copy(p, t.cur)
	t.cur = t.cur[n:]
	return n, nil
}

type c04Result struct {
	errs     int
	connRes  int
	csRes    int
	other    int
	writeErr int
}

// HarnessC04_Concurrent: one goroutine sends requests, another reads and decodes the
// responses on the same connection; every schedule of their synchronisation operations.
func HarnessC04_Concurrent() {
	nreq := 1 + vChoice(2+vTier())
	t := &answeringTransport{ready: make(chan []byte, 4), consumed: make(chan struct{}, 4), failFrom: -1}
	t.slow = vChoice(2) == 1
	// reversed: both requests are pipelined and the peer answers the second one first
	reversed := nreq == 2 && !t.slow && vChoice(2) == 1
	p := NewProtocol(t)
	if vChoice(2) == 1 {
		// a response nobody asked for arrives first: it is refused and must leave the
		// connection usable for the tracked requests that follow
		stray := NewCreateStreamResPacket(amf0.Number(77777))
		sb, _ := stray.MarshalBinary()
		sm := NewMessage()
		sm.MessageType = MessageTypeAMF0Command
		sm.Payload = sb
		_, serr := p.DecodeMessage(sm)
		vAssert(serr != nil, "a response without an outstanding request is an error")
	}
	var reqs []Packet
	var kinds []int
	off := 0
	for k := 0; k < nreq; k++ {
		var req, res Packet
		if k == 0 && vChoice(2) == 0 {
			req = NewConnectAppPacket()
			res = NewConnectAppResPacket(1.0)
			kinds = append(kinds, 0)
		} else {
			cs := NewCreateStreamPacket()
			cs.TransactionID = amf0.Number(math.Float64frombits(vU64()))
			vAssume(vAnd(float64(cs.TransactionID) > 1.5, float64(cs.TransactionID) < 70000)) // positive, distinct from connect's fixed id 1 and from the stray response
			for _, o := range reqs {
				if oc, ok := o.(*CreateStreamPacket); ok {
					vAssume(float64(oc.TransactionID) != float64(cs.TransactionID))
				}
			}
			r := NewCreateStreamResPacket(cs.TransactionID)
			r.StreamID = amf0.Number(math.Float64frombits(vU64()))
			req, res = cs, r
			kinds = append(kinds, 1)
		}
		reqs = append(reqs, req)
		// size of the request on the wire: 12-byte chunk header + payload (single chunk)
		rb, _ := req.MarshalBinary()
		off += 12 + len(rb)
		t.reqEnd = append(t.reqEnd, off)
		// the peer's response as wire bytes, produced by a second endpoint
		sd := newDuplex()
		if vChoice(2) == 1 {
			// the peer answers with an AMF3 command message (type 17): one format byte, then the same AMF0 body
			body, _ := res.MarshalBinary()
			rm := NewMessage()
			rm.MessageType = MessageTypeAMF3Command
			rm.Payload = append([]byte{0}, body...)
			NewProtocol(sd).WriteMessage(rm)
		} else {
			NewProtocol(sd).WritePacket(res, 0)
		}
		t.responses = append(t.responses, sd.out.data)
	}
	if reversed {
		// both answers become readable once the second request has left, second one first
		t.reqEnd[0] = t.reqEnd[1]
		t.responses[0], t.responses[1] = t.responses[1], t.responses[0]
	}
	// failLast: the transport breaks after the first of two requests has left: the second write fails,
	// the first request is still outstanding and its response still arrives
	failLast := nreq == 2 && !t.slow && !reversed && vChoice(2) == 1
	nread := nreq
	if failLast {
		t.failFrom = t.reqEnd[0]
		nread = 1
	}
	done := make(chan c04Result)
	go func() {
		var r c04Result
		for k := 0; k < nread; k++ {
			m, err := p.ReadMessage()
			if err != nil {
				r.errs++
				break
			}
			pkt, err := p.DecodeMessage(m)
			if err != nil {
				r.errs++
			} else {
				switch pkt.(type) {
				case *ConnectAppResPacket:
					r.connRes++
				case *CreateStreamResPacket:
					r.csRes++
				default:
					r.other++
				}
			}
			if t.slow {
				t.consumed <- struct{}{}
			}
		}
		done <- r
	}()
	werrs := 0
	for _, req := range reqs {
		if err := p.WritePacket(req, 0); err != nil {
			werrs++
		}
	}
	r := <-done
	wantConn, wantCS := 0, 0
	for _, k := range kinds[:nread] {
		if k == 0 {
			wantConn++
		} else {
			wantCS++
		}
	}
	// a duplicate of an already matched response must not be matched a second time
	dup, derr := NewProtocol(newDuplexWith(t.responses[0])).ReadMessage()
	if derr == nil && r.errs == 0 {
		_, e := p.DecodeMessage(dup)
		vAssert(e != nil, "no response is matched twice")
	}
	if failLast {
		vAssert(werrs == 1, "the request written to the broken transport reports the failure")
	} else {
		vAssert(werrs == 0, "requests are written")
	}
	vAssert(r.errs == 0, "no response fails to be read or decoded (no spurious 'no matched request')")
	vAssert(r.connRes == wantConn && r.csRes == wantCS && r.other == 0, "every response is decoded as the response type of its request, exactly once")
	vReach("concurrent")
}
