package rtmp

// C07 (RTMP): untrusted bytes never crash or stall the chunk reader or the message decoder.

func c07Bound(q, t int) int {
	if vTier() == 1 {
		return t
	}
	return q
}

// HarnessC07_Chunks: ReadMessage until error over an arbitrary byte stream. The input chunk
// size is small (symbolic 1..4) so that payload allocations stay within the stream, or the
// default 128.
func HarnessC07_Chunks() {
	n := vChoice(c07Bound(12, 16) + 1)
	d := newDuplexWith(vBytes(n))
	p := NewProtocol(d)
	if vChoice(2) == 1 {
		cs := vU32()
		vAssume(vAnd(cs >= 1, cs <= 4))
		p.input.opt.chunkSize = cs
	}
	for i := 0; i < n+2; i++ {
		if _, err := p.ReadMessage(); err != nil {
			break
		}
	}
	vAssert(true, "reader returned")
	vReach("c07-chunks")
}

// HarnessC07_Decode: DecodeMessage with arbitrary type and payload; every packet's decoder.
func HarnessC07_Decode() {
	m := NewMessage()
	m.MessageType = MessageType(vU8())
	m.Payload = vBytes(vChoice(c07Bound(10, 13) + 1))
	p := NewProtocol(newDuplex())
	if vChoice(2) == 1 {
		// with an outstanding request, so that responses reach their decoders
		p.WritePacket(NewConnectAppPacket(), 0)
		cs := NewCreateStreamPacket()
		p.WritePacket(cs, 0)
	}
	pkt, err := p.DecodeMessage(m)
	if err == nil {
		_ = pkt.Size()
		pkt.MarshalBinary()
		vReach("c07-decode-accepted")
	}
	vAssert(true, "decoder returned")
	vReach("c07-decode")
}

// HarnessC07_Packets: each packet type's UnmarshalBinary on arbitrary bytes.
func HarnessC07_Packets() {
	data := vBytes(vChoice(c07Bound(10, 13) + 1))
	var pkt Packet
	switch vChoice(12) {
	case 0:
		pkt = NewConnectAppPacket()
	case 1:
		pkt = NewConnectAppResPacket(0)
	case 2:
		pkt = NewCreateStreamPacket()
	case 3:
		pkt = NewCreateStreamResPacket(0)
	case 4:
		pkt = NewPublishPacket()
	case 5:
		pkt = NewPlayPacket()
	case 6:
		pkt = NewCallPacket()
	case 7:
		pkt = NewSetChunkSize()
	case 8:
		pkt = NewWindowAcknowledgementSize()
	case 9:
		pkt = NewSetPeerBandwidth()
	case 10:
		pkt = NewUserControl()
	case 11:
		pkt = NewCloseStreamPacket()
	}
	if pkt.UnmarshalBinary(data) == nil {
		_ = pkt.Size()
		vReach("c07-packets-accepted")
	}
	vAssert(true, "decoder returned")
	vReach("c07-packets")
}
