package rtmp

// C07 (RTMP): untrusted bytes never crash or stall the chunk reader or the message decoder.

func c07Bound(q, t int) int {
	if vTier() == 1 {
		return t
	}
	return q
}

// HarnessC07_Chunks: ReadMessage until error over an arbitrary byte stream. The input chunk
// size is small (symbolic 1..4) so that payload allocations stay within the stream, or the
// default 128.
func HarnessC07_Chunks() {
	n := vChoice(c07Bound(12, 16) + 1)
	d := newDuplexWith(vBytes(n))
	p := NewProtocol(d)
	if vChoice(2) == 1 {
		cs := vU32()
		vAssume(vAnd(cs >= 1, cs <= 4))
		p.input.opt.chunkSize = cs
	}
	for i := 0; i < n+2; i++ {
		if _, err := p.ReadMessage(); err != nil {
			break
		}
	}
	vAssert(true, "reader returned")
	vReach("c07-chunks")
}

// HarnessC07_Decode: DecodeMessage with arbitrary type and payload; every packet's decoder.
func HarnessC07_Decode() {
	m := NewMessage()
	m.MessageType = MessageType(vU8())
	m.Payload = vBytes(vChoice(c07Bound(13, 16) + 1))
	p := NewProtocol(newDuplex())
	if vChoice(2) == 1 {
		// with an outstanding request, so that responses reach their decoders
		p.WritePacket(NewConnectAppPacket(), 0)
		cs := NewCreateStreamPacket()
		p.WritePacket(cs, 0)
	}
	pkt, err := p.DecodeMessage(m)
	if err == nil {
		_ = pkt.Size()
		pkt.MarshalBinary()
		vReach("c07-decode-accepted")
	}
	vAssert(true, "decoder returned")
	vReach("c07-decode")
}

// HarnessC07_Packets: each packet type's UnmarshalBinary on arbitrary bytes.
func HarnessC07_Packets() {
	data := vBytes(vChoice(c07Bound(13, 16) + 1))
	var pkt Packet
	switch vChoice(12) {
	case 0:
		pkt = NewConnectAppPacket()
	case 1:
		pkt = NewConnectAppResPacket(0)
	case 2:
		pkt = NewCreateStreamPacket()
	case 3:
		pkt = NewCreateStreamResPacket(0)
	case 4:
		pkt = NewPublishPacket()
	case 5:
		pkt = NewPlayPacket()
	case 6:
		pkt = NewCallPacket()
	case 7:
		pkt = NewSetChunkSize()
	case 8:
		pkt = NewWindowAcknowledgementSize()
	case 9:
		pkt = NewSetPeerBandwidth()
	case 10:
		pkt = NewUserControl()
	case 11:
		pkt = NewCloseStreamPacket()
	}
	if pkt.UnmarshalBinary(data) == nil {
		_ = pkt.Size()
		vReach("c07-packets-accepted")
	}
	vAssert(true, "decoder returned")
	vReach("c07-packets")
}

// HarnessC07_ChunkStep: one chunk read from an arbitrary valid chunk-stream state (fresh, idle
// after earlier messages, or with a partially received message), with an arbitrary header type
// and arbitrary header bytes. Streams longer than the byte bound of C07_Chunks reach these
// states; the step must return (message, continue or error), never panic.
func HarnessC07_ChunkStep() {
	d := newDuplexWith(vBytes(vChoice(19)))
	p := NewProtocol(d)
	cs := vU32()
	vAssume(vAnd(cs >= 1, cs <= 4))
	p.input.opt.chunkSize = cs
	chunk := newChunkStream()
	chunk.cid = chunkID(2 + vChoice(2))
	chunk.header.betterCid = chunk.cid
	switch vChoice(3) {
	case 0: // fresh chunk stream
	case 1: // idle after earlier messages
		chunk.count = 1 + uint64(vU8())
		chunk.header.payloadLength = vU32() & 0xffffff
		chunk.header.MessageType = MessageType(vU8())
		chunk.header.streamID = vU32()
		chunk.header.Timestamp = uint64(vU32() & 0x7fffffff)
		chunk.header.timestampDelta = vU32() & 0xffffff
		chunk.extendedTimestamp = vBool()
	case 2: // a message partially received: 1..5 of 2..6 bytes
		chunk.count = 1 + uint64(vU8())
		l := 2 + vChoice(5)
		r := 1 + vChoice(l-1)
		chunk.header.payloadLength = uint32(l)
		chunk.header.MessageType = MessageType(vU8())
		chunk.header.streamID = vU32()
		chunk.header.Timestamp = uint64(vU32() & 0x7fffffff)
		chunk.header.timestampDelta = vU32() & 0xffffff
		chunk.extendedTimestamp = vBool()
		chunk.message = NewMessage()
		chunk.message.messageHeader = chunk.header
		chunk.message.Payload = vBytes(r)
	}
	p.input.chunks[chunk.cid] = chunk
	format := formatType(vChoice(4))
	if err := p.readMessageHeader(chunk, format); err == nil {
		if m, err := p.readMessagePayload(chunk); err == nil && m != nil {
			p.onMessageArrivated(m)
			vReach("c07-chunkstep-message")
		}
	}
	vAssert(true, "chunk step returned")
	vReach("c07-chunkstep")
}

// HarnessC07_RtmpLinear: the chunk reader's work grows no faster than linearly with the stream
// length: one message of n, 2n, 4n chunks (chunk size 1..2) or n, 2n, 4n single-chunk messages
// on one chunk stream with fmt 0/1/2/3 headers.
func HarnessC07_RtmpLinear() {
	shape := vChoice(3)
	cs := 1 + vChoice(2)
	cost := func(n int) int {
		s := &refSender{chunkSize: 128}
		ctl := &refCS{csid: 2, form: 1}
		c := &refCS{csid: 5, form: 1}
		switch shape {
		case 0: // one long message in many chunks
			s.setChunkSize(ctl, uint32(cs))
			pl := vPattern(n*cs, 7)
			s.first(c, 0, 1000, len(pl), 9, 1, pl)
			for c.cur != nil {
				s.cont(c)
			}
		case 1: // many small messages, compressed headers
			for i := 0; i < n; i++ {
				f := uint8(0)
				if i > 0 {
					f = uint8(1 + i%3)
				}
				s.first(c, f, 40, 3, 9, 1, []byte{1, 2, 3})
			}
		default: // many messages on many chunk streams (the reader keeps one state per stream)
			for i := 0; i < n; i++ {
				ci := &refCS{csid: uint32(64 + i%60000), form: 3}
				s.first(ci, 0, uint32(i), 2, 8, 1, []byte{1, 2})
			}
		}
		count := len(s.done)
		return vMeasure(func() {
			p := NewProtocol(newDuplexWith(s.out))
			got := 0
			for {
				if _, err := p.ReadMessage(); err != nil {
					break
				}
				got++
			}
			vAssert(got == count, "every message of the well-formed stream is read")
		})
	}
	vLinear(cost, 32, 256, 8192, "chunk reading cost grows no faster than linearly with the stream length")
	vReach("c07-rtmp-linear")
}
