package rtmp

import (
	"io"
	"math/rand"

	oe "github.com/ossrs/go-oryx-lib/errors"
)

// C08 (RTMP part): I/O failures surface as errors that keep their root cause.

type sentinelErr struct{ s string }

func (e *sentinelErr) Error() string { return e.s }

// the transport's error wraps another one (like *net.OpError): the root cause recovered by the
// errors package is still the transport's error itself
func (e *sentinelErr) Unwrap() error { return io.ErrClosedPipe }

var errTransport = &sentinelErr{"transport failed"}

// buildSession writes 1-2 messages through the library and returns the wire bytes, the
// messages and the offset at which each message is complete.
func buildSession() ([]byte, []sentMsg, []int) {
	ab := newDuplex()
	a := NewProtocol(ab)
	k := 1 + vChoice(2)
	var sent []sentMsg
	var ends []int
	for i := 0; i < k; i++ {
		m := genMessage(false)
		vAssume(len(m.Payload) <= 3)
		if i == 0 && vChoice(2) == 1 {
			// a two-chunk message: announce a chunk size of 2 first
			p := NewSetChunkSize()
			p.ChunkSize = 2
			a.WritePacket(p, 0)
			sent = append(sent, sentMsg{mt: 1, payload: []byte{0, 0, 0, 2}})
			ends = append(ends, len(ab.out.data))
		}
		sent = append(sent, sentMsg{mt: m.MessageType, sid: m.streamID, ts: m.Timestamp, payload: append([]byte(nil), m.Payload...)})
		a.WriteMessage(m)
		ends = append(ends, len(ab.out.data))
	}
	return ab.out.data, sent, ends
}

// HarnessC08_ReadCut: the byte stream ends or fails at any offset.
func HarnessC08_ReadCut() {
	stream, sent, ends := buildSession()
	cut := vChoice(len(stream) + 1)
	d := newDuplex()
	d.in.data = stream
	d.in.cut = cut
	useSentinel := vChoice(2) == 1
	if useSentinel {
		d.in.cutErr = errTransport
	}
	if vChoice(2) == 1 {
		d.in.chunk = 1
	}
	p := NewProtocol(d)
	complete := 0
	for _, e := range ends {
		if e <= cut {
			complete++
		}
	}
	for i := 0; ; i++ {
		m, err := p.ReadMessage()
		if i < complete {
			vAssert(err == nil, "a completely transferred message is returned")
			if err != nil {
				return
			}
			s := sent[i]
			vAssert(vAnd(m.MessageType == s.mt, vAnd(m.streamID == s.sid, m.Timestamp == s.ts)), "messages before the failure are unmodified")
			vAssert(len(m.Payload) == len(s.payload), "messages before the failure have their full payload")
			if len(m.Payload) == len(s.payload) {
				vAssert(vEqBytes(m.Payload, s.payload), "messages before the failure have their payload bytes")
			}
			continue
		}
		vAssert(err != nil, "an incomplete message is never returned with a nil error")
		if err == nil {
			return
		}
		vAssert(m == nil, "no message accompanies the error")
		cause := oe.Cause(err)
		if useSentinel {
			vAssert(cause == error(errTransport), "root cause is exactly the transport's error")
		} else {
			vAssert(cause == io.EOF || cause == io.ErrUnexpectedEOF, "root cause of a cut stream is io.EOF or io.ErrUnexpectedEOF")
		}
		break
	}
	vReach("read-cut")
}

// HarnessC08_WriteFail: the transport fails at some write call.
func HarnessC08_WriteFail() {
	d := newDuplex()
	big := vChoice(2) == 1
	d.out.failAt = vChoice(2)
	d.out.failN = vChoice(3)
	d.out.failErr = errTransport
	p := NewProtocol(d)
	m := genMessage(false)
	if big {
		// larger than bufio's 4096-byte buffer: several transport writes
		m.Payload = vPattern(9000, 3)
		m.Payload[0] = vU8()
	}
	err := p.WriteMessage(m)
	if !big && d.out.failAt > 0 {
		vAssert(err == nil, "a small message needs one transport write")
		vReach("write-ok")
		return
	}
	vAssert(err != nil, "a failed transport write fails WriteMessage")
	if err != nil {
		vAssert(oe.Cause(err) == error(errTransport), "write: root cause is exactly the transport's error")
	}
	// the error is sticky: nothing further is reported as written
	err2 := p.WriteMessage(genMessage(false))
	vAssert(err2 != nil, "writes after a transport failure keep failing")
	if err2 != nil {
		vAssert(oe.Cause(err2) == error(errTransport), "later writes keep the root cause")
	}
	vReach("write-fail")
}

// HarnessC08_Handshake: handshake reads over a cut stream and writes on a failing transport.
func HarnessC08_Handshake() {
	hs := NewHandshake(rand.New(&constSource{x: 3}))
	w := &sinkWriter{failAt: -1}
	hs.WriteC0S0(w)
	hs.WriteC1S1(w)
	cuts := []int{0, 1, 2, 700, 1536, 1537}
	cut := cuts[vChoice(len(cuts))]
	r := &segReader{data: w.data, cut: cut}
	useSentinel := vChoice(2) == 1
	if useSentinel {
		r.cutErr = errTransport
	}
	check := func(err error, what string) {
		vAssert(err != nil, what+": a cut handshake read fails")
		if err == nil {
			return
		}
		c := oe.Cause(err)
		if useSentinel {
			vAssert(c == error(errTransport), what+": root cause is the transport's error")
		} else {
			vAssert(c == io.EOF || c == io.ErrUnexpectedEOF, what+": root cause is io.EOF or io.ErrUnexpectedEOF")
		}
	}
	c0, err := hs.ReadC0S0(r)
	if cut < 1 {
		check(err, "C0")
		vAssert(c0 == nil, "no C0 with the error")
	} else {
		vAssert(err == nil, "complete C0 is read")
		c1, err := hs.ReadC1S1(r)
		if cut < 1537 {
			check(err, "C1")
			vAssert(c1 == nil, "no partial C1 is returned")
		} else {
			vAssert(vAnd(err == nil, len(c1) == 1536), "complete C1 is read")
		}
	}
	// failing writer
	fw := &sinkWriter{failAt: 0, failN: vChoice(2), failErr: errTransport}
	var werr error
	switch vChoice(3) {
	case 0:
		werr = hs.WriteC0S0(fw)
	case 1:
		werr = hs.WriteC1S1(fw)
	case 2:
		werr = hs.WriteC2S2(fw, w.data[1:1537])
	}
	vAssert(werr != nil, "a failed handshake write is reported")
	if werr != nil {
		vAssert(oe.Cause(werr) == error(errTransport), "handshake write: root cause is the transport's error")
	}
	vReach("handshake-io")
}

// HarnessC08_WritePacketFail: a failed transport write fails WritePacket for every packet
// kind, including the requests whose transaction is registered.
func HarnessC08_WritePacketFail() {
	d := newDuplex()
	d.out.failAt = 0
	d.out.failN = vChoice(3)
	d.out.failErr = errTransport
	p := NewProtocol(d)
	kinds := []int{0, 2, 4, 8, 11}
	pkt, _, _, name := genPacket(kinds[vChoice(len(kinds))])
	err := p.WritePacket(pkt, vChoice(2))
	vAssert(err != nil, name+": a failed transport write fails WritePacket")
	if err != nil {
		vAssert(oe.Cause(err) == error(errTransport), name+": WritePacket keeps the transport's error as root cause")
	}
	vReach("writepacket-fail")
}
