package rtmp

import "io"

// segReader delivers data in bounded pieces: at most `first` bytes by the first Read and at
// most `chunk` bytes by every later one (0 = unlimited). It models the transport's freedom to
// split the byte stream into reads.
type segReader struct {
	data  []byte
	pos   int
	first int
	chunk int
	reads int
	// fault injection: after `cut` bytes (cut >= 0) every Read returns cutErr
	cut    int
	cutErr error
}

func (r *segReader) Read(p []byte) (int, error) {
	limit := len(r.data)
	if r.cut >= 0 && r.cut < limit {
		limit = r.cut
	}
	if r.pos >= limit {
		if r.cut >= 0 && r.cutErr != nil {
			return 0, r.cutErr
		}
		return 0, io.EOF
	}
	n := len(p)
	if n > limit-r.pos {
		n = limit - r.pos
	}
	max := r.chunk
	if r.reads == 0 && r.first > 0 {
		max = r.first
	}
	if max > 0 && n > max {
		n = max
	}
	copy(p, r.data[r.pos:r.pos+n])
	r.pos += n
	r.reads++
	return n, nil
}

// pickSegmentation chooses a read segmentation for a stream of n bytes: whole, one byte per
// read, or one split point anywhere in the stream.
func pickSegmentation(data []byte) *segReader {
	r := &segReader{data: data, cut: -1}
	switch vChoice(3) {
	case 0:
	case 1:
		r.chunk = 1
	case 2:
		if len(data) > 1 {
			r.first = 1 + vChoice(len(data)-1)
		}
	}
	return r
}

// sinkWriter collects everything written to it.
type sinkWriter struct {
	data   []byte
	writes int
	// fault injection: the write call with index failAt (>= 0) fails with failErr after
	// accepting failN bytes
	failAt  int
	failN   int
	failErr error
}

func (w *sinkWriter) Write(p []byte) (int, error) {
	if w.failAt >= 0 && w.writes == w.failAt {
		w.writes++
		n := w.failN
		if n > len(p) {
			n = len(p)
		}
		w.data = append(w.data, p[:n]...)
		return n, w.failErr
	}
	w.writes++
	w.data = append(w.data, p...)
	return len(p), nil
}

// duplex joins a segmented reader and a collecting writer into an io.ReadWriter.
type duplex struct {
	in  *segReader
	out *sinkWriter
}

func (d *duplex) Read(p []byte) (int, error)  { return d.in.Read(p) }
func (d *duplex) Write(p []byte) (int, error) { return d.out.Write(p) }

func newDuplex() *duplex {
	return &duplex{in: &segReader{cut: -1}, out: &sinkWriter{failAt: -1}}
}

// segmentStream chooses how the transport splits n bytes into reads: whole, 1 byte per
// read (short streams) or a fixed odd chunk, or one split point anywhere (short streams) /
// near the given structural offsets.
func segmentStream(r *segReader, marks []int) {
	n := len(r.data)
	switch vChoice(3) {
	case 0:
	case 1:
		if n <= 96 {
			r.chunk = 1
		} else {
			r.chunk = 61
		}
	case 2:
		var cand []int
		if n <= 48 && vTier() == 1 {
			for o := 1; o < n; o++ {
				cand = append(cand, o)
			}
		} else {
			for _, m := range marks {
				for d := -1; d <= 1; d++ {
					if m+d >= 1 && m+d < n {
						cand = append(cand, m+d)
					}
				}
			}
		}
		if len(cand) > 0 {
			r.first = cand[vChoice(len(cand))]
		}
	}
}

// constSource is a math/rand Source with a fixed stream (the properties do not depend on the
// handshake's random bytes).
type constSource struct{ x int64 }

func (s *constSource) Int63() int64    { s.x = (s.x*6364136223846793005 + 1442695040888963407) & (1<<63 - 1); return s.x }
func (s *constSource) Seed(seed int64) { s.x = seed }

func newDuplexWith(data []byte) *duplex {
	d := newDuplex()
	d.in.data = data
	return d
}
