package websocket

// C07 (WebSocket): untrusted bytes never crash or stall the frame reader.
func HarnessC07_Websocket() {
	max := 5
	if vTier() == 1 {
		max = 8
	}
	n := vChoice(max + 1)
	d := vBytes(n)
	// bound: control frames carry at most 6 payload bytes (longer ones cannot be complete in n bytes)
	fc := newFakeConn(d)
	c := newConn(fc, vBool(), 0, 0)
	if vTier() == 1 && vChoice(2) == 1 {
		c.SetReadLimit(int64(1 + vChoice(4)))
	}
	for i := 0; i < 4; i++ {
		_, r, err := c.NextReader()
		if err != nil {
			break
		}
		buf := make([]byte, 8)
		for j := 0; j < 8; j++ {
			if _, err := r.Read(buf); err != nil {
				break
			}
		}
	}
	vAssert(true, "reader returned")
	vReach("c07-websocket")
}
