package websocket

// C07 (WebSocket): untrusted bytes never crash or stall the frame reader.
func HarnessC07_Websocket() {
	max := 5
	if vTier() == 1 {
		max = 7 // (8 did not finish within the thorough budget)
	}
	n := vChoice(max + 1)
	d := vBytes(n)
	// bound: control frames carry at most 6 payload bytes (longer ones cannot be complete in n bytes)
	fc := newFakeConn(d)
	c := newConn(fc, vBool(), 0, 0)
	if vTier() == 1 && vChoice(2) == 1 {
		c.SetReadLimit(int64(1 + vChoice(4)))
	}
	for i := 0; i < 4; i++ {
		_, r, err := c.NextReader()
		if err != nil {
			break
		}
		buf := make([]byte, 8)
		for j := 0; j < 8; j++ {
			if _, err := r.Read(buf); err != nil {
				break
			}
		}
	}
	vAssert(true, "reader returned")
	vReach("c07-websocket")
}

// HarnessC07_WebsocketLinear: the frame reader's work grows no faster than linearly with the
// stream length: one message of n, 2n, 4n fragments, n, 2n, 4n small messages (with a ping
// between them, answered by a pong), or one frame of n, 2n, 4n bytes; masked (server side) or not.
func HarnessC07_WebsocketLinear() {
	server := vBool()
	shape := vChoice(3)
	key := [4]byte{1, 2, 3, 4}
	cost := func(n int) int {
		var wire []byte
		switch shape {
		case 0:
			for i := 0; i < n; i++ {
				op := uint8(0)
				if i == 0 {
					op = 2
				}
				wire = append(wire, encodeFrame(i == n-1, 0, op, server, key, 7, []byte{byte(i), 1})...)
			}
		case 1:
			for i := 0; i < n; i++ {
				wire = append(wire, encodeFrame(true, 0, 2, server, key, 7, []byte{byte(i)})...)
				if i%4 == 3 {
					wire = append(wire, encodeFrame(true, 0, 9, server, key, 7, []byte{7})...)
				}
			}
		default:
			form := 16
			if n <= 125 {
				form = 7
			}
			wire = encodeFrame(true, 0, 2, server, key, form, vPattern(n, 3))
		}
		return vMeasure(func() {
			c := newConn(newFakeConn(wire), server, 0, 0)
			got := 0
			for {
				_, p, err := c.ReadMessage()
				if err != nil {
					break
				}
				got += len(p)
			}
			vAssert(got > 0, "the well-formed stream is read")
		})
	}
	vLinear(cost, 96, 2048, 8192, "frame reading cost grows no faster than linearly with the stream length")
	vReach("c07-websocket-linear")
}
