package websocket

import "io"

// C13: messages arrive intact, in order, on an RFC 6455-valid wire (uncompressed data path
// on constructed connections).

type plainReader struct {
	data    []byte
	pos     int
	chunk   int
	withEOF bool // return the last bytes together with io.EOF
}

func (r *plainReader) Read(p []byte) (int, error) {
	if r.pos >= len(r.data) {
		return 0, io.EOF
	}
	n := len(p)
	if n > len(r.data)-r.pos {
		n = len(r.data) - r.pos
	}
	if r.chunk > 0 && n > r.chunk {
		n = r.chunk
	}
	copy(p, r.data[r.pos:r.pos+n])
	r.pos += n
	if r.withEOF && r.pos >= len(r.data) {
		return n, io.EOF
	}
	return n, nil
}

type wsMsg struct {
	mt   int
	data []byte
}

func c13Message(kind int) wsMsg {
	mt := TextMessage + vChoice(2)
	switch kind {
	case 1: // boundary sizes
		sizes := []int{125, 126, 127}
		if vTier() == 1 {
			sizes = []int{125, 126, 127, 4095, 4096, 4097, 65535, 65536}
		}
		n := sizes[vChoice(len(sizes))]
		d := vPattern(n, 17)
		d[0], d[n/2], d[n-1] = vU8(), vU8(), vU8()
		return wsMsg{mt, d}
	case 2: // short, for multi-message sessions
		return wsMsg{mt, vBytes(vChoice(3))}
	case 3: // the 16/64-bit length form boundary in one frame
		n := []int{65535, 65536}[vChoice(2)]
		d := vPattern(n, 29)
		d[0], d[n-1] = vU8(), vU8()
		return wsMsg{mt, d}
	}
	max := 6
	if vTier() == 1 {
		max = 9 // (20 and 12 did not finish within the thorough budget)
	}
	return wsMsg{mt, vBytes(vChoice(max + 1))}
}

// writeWith sends m on c through a forked API.
func writeWith(c *Conn, m wsMsg, apis []int) error {
	switch apis[vChoice(len(apis))] {
	case 0:
		return c.WriteMessage(m.mt, m.data)
	case 1:
		w, err := c.NextWriter(m.mt)
		if err != nil {
			return err
		}
		var s int
		if len(m.data) > 24 {
			s = []int{0, 1, len(m.data) / 2, len(m.data) - 1, len(m.data)}[vChoice(5)]
		} else {
			s = vChoice(len(m.data) + 1)
		}
		if _, err := w.Write(m.data[:s]); err != nil {
			return err
		}
		if _, err := w.Write(m.data[s:]); err != nil {
			return err
		}
		return w.Close()
	case 2:
		w, err := c.NextWriter(m.mt)
		if err != nil {
			return err
		}
		if _, err := io.WriteString(w, string(m.data)); err != nil {
			return err
		}
		return w.Close()
	case 3, 4:
		w, err := c.NextWriter(m.mt)
		if err != nil {
			return err
		}
		r := &plainReader{data: m.data, withEOF: vBool()}
		if vChoice(2) == 1 {
			r.chunk = 1 + vChoice(2)
		}
		n, err := io.Copy(w, r) // plainReader has no WriteTo: messageWriter.ReadFrom is used
		if err != nil {
			return err
		}
		vAssert(n == int64(len(m.data)), "ReadFrom reports every byte it consumed")
		return w.Close()
	default:
		pm, err := NewPreparedMessage(m.mt, m.data)
		if err != nil {
			return err
		}
		return c.WritePreparedMessage(pm)
	}
}

// checkWire: every frame on the wire parses under the independent RFC 6455 parser, with
// FIN/continuation sequencing, masking per role, minimal length form, RSV clear.
func checkWire(wire []byte, fromServer bool, msgs []wsMsg) {
	frames, ok := parseFrames(wire)
	vAssert(ok, "the wire is a sequence of whole frames")
	if !ok {
		return
	}
	k := 0
	for _, m := range msgs {
		var got []byte
		first := true
		for {
			vAssert(k < len(frames), "every message has its frames on the wire")
			if k >= len(frames) {
				return
			}
			f := frames[k]
			k++
			vAssert(f.rsv == 0, "RSV bits are clear without compression")
			vAssert(f.masked == !fromServer, "client frames are masked and server frames are not")
			if first {
				vAssert(int(f.opcode) == m.mt, "the first frame carries the message type")
			} else {
				vAssert(f.opcode == 0, "later frames are continuation frames")
			}
			n := len(f.payload)
			minimal := (n <= 125 && f.lenForm == 7) || (n > 125 && n < 65536 && f.lenForm == 16) || (n >= 65536 && f.lenForm == 64)
			vAssert(minimal, "the length uses the minimal form")
			got = append(got, f.payload...)
			first = false
			if f.fin {
				break
			}
		}
		vAssert(len(got) == len(m.data), "the frames of a message carry exactly its payload")
		if len(got) == len(m.data) {
			vAssert(vEqBytes(got, m.data), "the frames of a message carry its bytes in order")
		}
	}
	vAssert(k == len(frames), "nothing but the messages' frames is on the wire")
}

// HarnessC13_RoundTrip: messages written through any API arrive at the peer identical and
// in order; the wire is RFC 6455-valid.
func HarnessC13_RoundTrip() {
	server := vBool()
	// scenario 0: one message of 0..6 bytes, small write buffers, every API
	// scenario 1: one message at a length-form boundary, every API
	// scenario 2: two short messages (three in the thorough tier), two APIs
	// scenario 3: one message around 65535/65536 bytes in a single frame (write buffer 70000)
	scenario := vChoice(4)
	wbuf, n, kind := 0, 1, 0
	apis := []int{0, 1, 2, 3, 4, 5}
	switch scenario {
	case 0:
		wbuf = []int{1, 4, 16}[vChoice(3)]
	case 1:
		wbuf = []int{16, 0}[vChoice(2)] // 0 = the default 4096
		kind = 1
	case 3:
		wbuf = 70000
		kind = 3
		apis = []int{0, 1}
	case 2:
		wbuf = []int{1, 4}[vChoice(2)]
		n, kind = 2, 2
		apis = []int{0, 1, 5}
		if vTier() == 1 {
			apis = []int{0, 1, 2, 3, 5} // (three-message sessions did not finish within the thorough budget)
		}
	}
	fc := newFakeConn(nil)
	w := newConn(fc, server, 0, wbuf)
	var msgs []wsMsg
	for i := 0; i < n; i++ {
		m := c13Message(kind)
		err := writeWith(w, m, apis)
		vAssert(err == nil, "writing a message on a working connection succeeds")
		if err != nil {
			return
		}
		msgs = append(msgs, wsMsg{m.mt, append([]byte(nil), m.data...)})
	}
	checkWire(fc.wire, server, msgs)
	rc := newFakeConn(fc.wire)
	if vTier() == 1 && scenario != 0 && vChoice(2) == 1 {
		rc.chunk = 3
	}
	r := newConn(rc, !server, 0, 0)
	for _, m := range msgs {
		mt, p, err := r.ReadMessage()
		vAssert(err == nil, "the peer reads each message")
		if err != nil {
			return
		}
		vAssert(mt == m.mt, "message type identical")
		vAssert(len(p) == len(m.data), "message length identical")
		if len(p) == len(m.data) {
			vAssert(vEqBytes(p, m.data), "message payload identical")
		}
	}
	_, _, err := r.ReadMessage()
	vAssert(err != nil, "nothing but the written messages arrives")
	vReach("roundtrip")
}

// collectWriter records what is written to it.
type collectWriter struct{ parts [][]byte }

func (c *collectWriter) Write(p []byte) (int, error) {
	c.parts = append(c.parts, append([]byte(nil), p...))
	return len(p), nil
}

// HarnessC13_TruncWriter: the writer used for the deflate tail forwards everything but the
// last four bytes, for any split of the input into writes.
func HarnessC13_TruncWriter() {
	n := vChoice(11)
	data := vBytes(n)
	cw := &collectWriter{}
	tw := &truncWriter{w: vNopCloser{cw}}
	a := vChoice(n + 1)
	b := a + vChoice(n-a+1)
	for _, part := range [][]byte{data[:a], data[a:b], data[b:]} {
		k, err := tw.Write(part)
		_ = k // the count it returns excludes the bytes it holds back (gorilla behaviour; flate ignores it)
		vAssert(err == nil, "truncWriter accepts every write")
	}
	var got []byte
	for _, p := range cw.parts {
		got = append(got, p...)
	}
	want := 0
	if n > 4 {
		want = n - 4
	}
	vAssert(len(got) == want, "all but the last four bytes are forwarded")
	if len(got) == want {
		vAssert(vEqBytes(got, data[:want]), "forwarded bytes are the input's prefix")
	}
	vReach("truncwriter")
}

type vNopCloser struct{ io.Writer }

func (vNopCloser) Close() error { return nil }
