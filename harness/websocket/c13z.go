package websocket

import (
	"bytes"
	"compress/flate"
	"io"
	"io/ioutil"
)

// HarnessC13_Compressed: per-message deflate. The payload is concrete for the Huffman levels
// (deflate's hash chains cannot take symbolic bytes) and symbolic for level 0 (stored blocks); role, compression level, write buffer
// size, message length and write API are forked. Every frame parses, RSV1 is set on the first
// frame of the compressed message and on no other, and an RFC 7692 receiver (concatenated
// payloads + 00 00 ff ff, inflated by compress/flate) recovers the message.
func HarnessC13_Compressed() {
	server := vBool()
	level := []int{1, -1, 0}[vChoice(3)] // BestSpeed, default, no compression (stored blocks)
	wbuf := []int{8, 32}[vChoice(2)]
	n := []int{0, 1, 40, 100}[vChoice(4)]
	msg := c13zMessage(n)
	if level == 0 && n > 0 && n <= 40 {
		// stored blocks: the payload bytes can be symbolic
		msg = vBytes(n)
	}
	fc := newFakeConn(nil)
	c := newConn(fc, server, 0, wbuf)
	c.newCompressionWriter = compressNoContextTakeover
	c.EnableWriteCompression(true)
	vAssert(c.SetCompressionLevel(level) == nil, "valid compression level accepted")
	api := vChoice(2)
	var err error
	if api == 0 {
		err = c.WriteMessage(BinaryMessage, msg)
	} else {
		var w io.WriteCloser
		w, err = c.NextWriter(BinaryMessage)
		if err == nil {
			k := n / 3
			_, err = w.Write(msg[:k])
			if err == nil {
				_, err = w.Write(msg[k:])
			}
			if err == nil {
				err = w.Close()
			}
		}
	}
	vAssert(err == nil, "writing a compressed message succeeds")
	if err != nil {
		return
	}
	frames, ok := parseFrames(fc.wire)
	vAssert(ok && len(frames) > 0, "the wire is a sequence of whole frames")
	if !ok || len(frames) == 0 {
		return
	}
	var payload []byte
	for i, f := range frames {
		if i == 0 {
			// RFC 7692 6: a sender may also send a message uncompressed (RSV1 clear)
			vAssert(f.opcode == BinaryMessage && (f.rsv == 4 || f.rsv == 0), "first frame: binary opcode, no reserved bit other than RSV1")
		} else {
			vAssert(f.opcode == 0, "following frames are continuation frames")
			vAssert(f.rsv == 0, "RSV1 only on the first frame of a compressed message")
		}
		vAssert(f.fin == (i == len(frames)-1), "FIN on the last frame only")
		vAssert(f.masked == !server, "masked iff written by a client")
		payload = append(payload, f.payload...)
	}
	if frames[0].rsv == 0 {
		vAssert(len(payload) == len(msg), "an uncompressed message has the message's length")
		if len(payload) == len(msg) {
			vAssert(vEqBytes(payload, msg), "an uncompressed message carries the message")
		}
		vReach("compressed")
		return
	}
	// RFC 7692 7.2.2: append 00 00 ff ff and inflate
	fr := flate.NewReader(io.MultiReader(bytes.NewReader(payload), bytes.NewReader([]byte{0x00, 0x00, 0xff, 0xff, 0x01, 0x00, 0x00, 0xff, 0xff})))
	got, err := ioutil.ReadAll(fr)
	vAssert(err == nil, "the concatenated payload inflates")
	if err == nil {
		vAssert(len(got) == len(msg), "the inflated payload has the message's length")
		if len(got) == len(msg) {
			vAssert(vEqBytes(got, msg), "the inflated payload is the message")
		}
	}
	vReach("compressed")
}

func c13zMessage(n int) []byte {
	msg := make([]byte, n)
	x := uint32(12345)
	for i := range msg {
		x = x*1103515245 + 12345
		msg[i] = byte(x >> 16)
		if i%5 == 4 {
			msg[i] = msg[i-4]
		}
	}
	return msg
}

// HarnessC13_CompressedRead: the receiving side of per-message deflate. An RFC 7692 sender
// (compress/flate with a sync flush, the trailing 00 00 ff ff removed, RSV1 on the first frame,
// the compressed stream split over 1-3 frames at forked offsets) is read by the library; the
// message comes out as sent. Payload symbolic for stored blocks, concrete otherwise.
func HarnessC13_CompressedRead() {
	server := vBool()
	level := []int{1, 0}[vChoice(2)]
	n := []int{0, 1, 30}[vChoice(3)]
	msg := c13zMessage(n)
	if level == 0 && n > 0 {
		msg = vBytes(n)
	}
	var buf bytes.Buffer
	fw, _ := flate.NewWriter(&buf, level)
	fw.Write(msg)
	fw.Flush()
	comp := buf.Bytes()
	comp = comp[:len(comp)-4]
	nfr := 1 + vChoice(3)
	var wire []byte
	rest := comp
	for k := 0; k < nfr; k++ {
		cut := len(rest)
		if k < nfr-1 {
			// every offset in the thorough tier; the ends, the middle and their neighbours otherwise
			if vTier() == 1 || len(rest) < 5 {
				cut = vChoice(len(rest) + 1)
			} else {
				cut = []int{0, 1, len(rest) / 2, len(rest) - 1, len(rest)}[vChoice(5)]
			}
		}
		f := seqFrame{fin: k == nfr-1, opcode: 0, masked: server, lenForm: 7, payload: rest[:cut]}
		if k == 0 {
			f.opcode, f.rsv = BinaryMessage, 4
		}
		wire = append(wire, encodeSeqFrame(f)...)
		rest = rest[cut:]
	}
	fc := newFakeConn(wire)
	if vChoice(2) == 1 {
		fc.chunk = 1
	}
	c := newConn(fc, server, 0, 0)
	c.newDecompressionReader = decompressNoContextTakeover
	mt, p, err := c.ReadMessage()
	vAssert(err == nil, "a compressed message from a conformant sender is delivered")
	if err != nil {
		return
	}
	vAssert(mt == BinaryMessage, "message type as sent")
	vAssert(len(p) == len(msg), "message length as sent")
	if len(p) == len(msg) {
		vAssert(vEqBytes(p, msg), "message payload as sent")
	}
	_, _, err = c.ReadMessage()
	vAssert(err != nil, "nothing follows the message")
	vReach("compressed-read")
}
