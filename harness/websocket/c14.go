package websocket

import "io"

// C14: the reader enforces the RFC 6455 framing rules and the read limit.

// HarnessC14_Step: one frame from an arbitrary valid reader state. The whole header - two
// bytes, the 16/64-bit extended length (2^63 and above included) and the mask key - is
// symbolic; control payloads are symbolic bytes.
func HarnessC14_Step() {
	isServer := vBool()
	d := vBytes(24)
	fc := newFakeConn(d)
	c := newConn(fc, isServer, 0, 0)
	// arbitrary valid state between frames
	c.readFinal = vBool()
	limit := vI64()
	vAssume(vAnd(limit >= 0, limit < 1<<40))
	c.readLimit = limit
	rl := vI64()
	vAssume(vAnd(rl >= 0, rl < 1<<40))
	vAssume(vOr(limit == 0, rl <= limit))
	vAssume(vImplies(c.readFinal, rl == 0)) // no message in progress: nothing counted yet
	c.readLength = rl
	msgInProgress := !c.readFinal

	// ---- reference receiver step (RFC 6455 5.2, 5.4, 5.5, 7.4) ----
	fin := d[0]&0x80 != 0
	rsv := d[0] & 0x70
	op := d[0] & 0x0f
	masked := d[1]&0x80 != 0
	len7 := d[1] & 0x7f
	isCtl := vOr(op == 8, vOr(op == 9, op == 10))
	isDataStart := vOr(op == 1, op == 2)
	isCont := op == 0
	viol := rsv != 0
	viol = vOr(viol, vNot(vOr(isCtl, vOr(isDataStart, isCont))))
	viol = vOr(viol, vAnd(isCtl, vOr(len7 > 125, vNot(fin))))
	viol = vOr(viol, vAnd(isDataStart, msgInProgress))
	viol = vOr(viol, vAnd(isCont, !msgInProgress))
	viol = vOr(viol, masked != isServer)
	hdr := 2
	var plen uint64
	topBit := false
	switch {
	case len7 == 126:
		plen = uint64(d[2])<<8 | uint64(d[3])
		hdr = 4
	case len7 == 127:
		plen = uint64(d[2])<<56 | uint64(d[3])<<48 | uint64(d[4])<<40 | uint64(d[5])<<32 | uint64(d[6])<<24 | uint64(d[7])<<16 | uint64(d[8])<<8 | uint64(d[9])
		hdr = 10
		topBit = plen >= 1<<63 // most significant bit must be 0
	default:
		plen = uint64(len7)
	}
	if isServer {
		hdr += 4
	}

	// bound: close frames carry at most a code and 2 reason bytes, other control frames 8 bytes
	vAssume(vImplies(op == 8, vOr(len7 <= 4, len7 > 125)))
	vAssume(vImplies(vOr(op == 9, op == 10), vOr(len7 <= 8, len7 > 125)))

	ft, err := c.advanceFrame()

	if vAnd(vNot(viol), topBit) {
		// the property only demands that such a length is never accepted as a frame
		vAssert(err != nil, "a 64-bit length with the top bit set is never accepted as a frame")
		vReach("step-topbit")
		return
	}
	if viol {
		vAssert(err != nil, "a frame that breaks the framing rules is rejected (reserved bits/opcodes, bad control frame, sequencing, masking)")
		if err != nil {
			frames, ok := parseFrames(fc.wire)
			closeSent := ok && len(frames) == 1 && frames[0].opcode == 8 && len(frames[0].payload) >= 2 && frames[0].payload[0] == 0x03 && frames[0].payload[1] == 0xea
			vAssert(closeSent, "a Close frame with status 1002 is sent on a protocol violation")
			// permanent failure
			c.readErr = err
			_, _, e2 := c.NextReader()
			vAssert(e2 != nil, "reading fails permanently after a protocol violation")
		}
		vReach("step-violation")
		return
	}
	if vOr(isDataStart, isCont) {
		// the message size must stay representable and within the limit
		over := vOr(plen > uint64(1<<63-1-rl), vAnd(limit > 0, plen > uint64(limit-rl)))
		if over {
			vAssert(err == ErrReadLimit, "a message that would exceed the read limit fails with the limit error")
			vReach("step-limit")
			return
		}
		vAssert(err == nil, "a conformant data frame is accepted")
		if err == nil {
			vAssert(ft == int(op), "the frame type is reported")
			vAssert(vAnd(c.readRemaining == int64(plen), c.readRemaining >= 0), "the remaining payload is the frame's length (never negative)")
			vAssert(c.readLength == rl+int64(plen), "the message size counts the frame's payload")
			vAssert(vOr(limit == 0, c.readLength <= limit), "the message size stays within the read limit")
			vAssert(c.readFinal == fin, "FIN is remembered")
		}
		vReach("step-data")
		return
	}
	// conformant control frame: payload within the provided bytes
	vAssume(plen <= 8)
	pl := d[hdr : hdr+int(plen)]
	if isServer {
		key := d[hdr-4 : hdr]
		un := make([]byte, len(pl))
		for k := range pl {
			un[k] = pl[k] ^ key[k&3]
		}
		pl = un
	}
	switch op {
	case 9:
		vAssert(err == nil, "ping is accepted")
		frames, ok := parseFrames(fc.wire)
		good := ok && len(frames) == 1 && frames[0].opcode == 10 && frames[0].fin && len(frames[0].payload) == len(pl)
		if good {
			good = vEqBytes(frames[0].payload, pl)
		}
		vAssert(good, "a ping is answered by a pong with the same payload")
		vReach("step-ping")
	case 10:
		vAssert(err == nil, "pong is accepted")
		vAssert(len(fc.wire) == 0, "a pong is not answered")
		vReach("step-pong")
	case 8:
		if len(pl) >= 2 {
			code := int(pl[0])<<8 | int(pl[1])
			okc := validCloseCode(code) && validUTF8(pl[2:])
			if !okc {
				vAssert(err != nil, "close with invalid code or non-UTF-8 reason is rejected")
				if _, isClose := err.(*CloseError); isClose {
					vAssert(false, "an invalid close frame is a protocol error, not a normal close")
				}
				vReach("step-close-bad")
				return
			}
			ce, isClose := err.(*CloseError)
			vAssert(isClose, "a valid close frame ends reading with a close error")
			if isClose {
				vAssert(ce.Code == code, "close code is reported")
			}
			vReach("step-close")
		} else if len(pl) == 0 {
			_, isClose := err.(*CloseError)
			vAssert(isClose, "an empty close frame ends reading with a close error")
			vReach("step-close-empty")
		}
	}
	_ = io.EOF
}

// ---------------------------------------------------------------------------------------
// Sequences of frames against a reference RFC 6455 receiver.

type seqFrame struct {
	fin     bool
	rsv     uint8
	opcode  uint8
	masked  bool
	lenForm int
	payload []byte
	topBit  bool // 64-bit length with the most significant bit set (no payload follows)
}

type recvd struct {
	mt      int
	payload []byte
}

// refReceive runs the reference receiver over frames and returns the delivered messages,
// the index of the first rule violation (-1: none), the pongs owed, whether a close frame
// ended the stream, and whether the limit was exceeded.
func refReceive(frames []seqFrame, isServer bool, limit int) (msgs []recvd, violAt int, pongs [][]byte, closedAt int, limitAt int) {
	violAt, closedAt, limitAt = -1, -1, -1
	inMsg := false
	var cur recvd
	size := 0
	for k, f := range frames {
		ctl := f.opcode == 8 || f.opcode == 9 || f.opcode == 10
		bad := f.rsv != 0 || f.topBit || f.masked != isServer
		switch {
		case ctl:
			bad = bad || !f.fin || len(f.payload) > 125 || f.lenForm != 7
		case f.opcode == 1 || f.opcode == 2:
			bad = bad || inMsg
		case f.opcode == 0:
			bad = bad || !inMsg
		default:
			bad = true
		}
		if !bad && f.opcode == 8 && len(f.payload) >= 2 {
			code := int(f.payload[0])<<8 | int(f.payload[1])
			bad = !validCloseCode(code) || !validUTF8(f.payload[2:])
		}
		if bad {
			violAt = k
			return
		}
		switch {
		case f.opcode == 9:
			pongs = append(pongs, f.payload)
		case f.opcode == 10:
		case f.opcode == 8:
			closedAt = k
			return
		default:
			if f.opcode != 0 {
				cur = recvd{mt: int(f.opcode)}
				inMsg = true
				size = 0
			}
			size += len(f.payload)
			if limit > 0 && size > limit {
				limitAt = k
				return
			}
			cur.payload = append(cur.payload, f.payload...)
			if f.fin {
				msgs = append(msgs, cur)
				inMsg = false
			}
		}
	}
	return
}

// genFrame draws one frame of a forked kind; conformant kinds have symbolic opcode within
// their class and symbolic payload bytes.
func genFrame(isServer bool, first bool, inMsg bool) (f seqFrame, violating bool) {
	f = seqFrame{fin: true, masked: isServer, lenForm: 7}
	n := 0
	if first {
		n = []int{0, 1, 3}[vChoice(3)]
		f.lenForm = []int{7, 16, 64}[vChoice(3)]
	} else {
		n = []int{0, 2}[vChoice(2)]
	}
	kinds := 16
	switch vChoice(kinds) {
	case 0: // data, final
		f.opcode = uint8(1 + vChoice(2))
	case 1: // data, not final
		f.opcode = uint8(1 + vChoice(2))
		f.fin = false
	case 2: // continuation, final
		f.opcode = 0
	case 3: // continuation, not final
		f.opcode = 0
		f.fin = false
	case 4: // ping
		f.opcode = 9
		f.lenForm = 7
	case 5: // pong
		f.opcode = 10
		f.lenForm = 7
	case 6: // close with valid code
		f.opcode = 8
		f.lenForm = 7
		f.payload = []byte{0x03, 0xe8}
		if n > 0 {
			f.payload = append(f.payload, 'o', 'k')
		}
		return f, false
	case 7: // empty close
		f.opcode = 8
		f.lenForm = 7
		return f, false
	case 8: // reserved bit
		f.opcode = uint8(1 + vChoice(2))
		f.rsv = uint8(1 + vChoice(7))
		violating = true
	case 9: // reserved opcode
		f.opcode = []uint8{3, 7, 11, 15}[vChoice(4)]
		violating = true
	case 10: // fragmented control frame
		f.opcode = uint8(8 + vChoice(3))
		f.fin = false
		f.lenForm = 7
		violating = true
	case 11: // control frame with an extended length form
		f.opcode = uint8(9 + vChoice(2))
		f.lenForm = 16
		violating = true
	case 12: // wrong masking for the role
		f.opcode = uint8(1 + vChoice(2))
		f.masked = !isServer
		violating = true
	case 13: // invalid close code
		f.opcode = 8
		f.lenForm = 7
		code := vU16()
		vAssume(vNot(vOr(vAnd(code >= 1000, code <= 1003), vOr(vAnd(code >= 1007, code <= 1013), vAnd(code >= 3000, code <= 4999)))))
		f.payload = []byte{byte(code >> 8), byte(code)}
		return f, true
	case 14: // non-UTF-8 close reason, short or long (up to the 125-byte limit)
		f.opcode = 8
		f.lenForm = 7
		f.payload = []byte{0x03, 0xe8, 0xc3, 0x28}
		if vChoice(2) == 1 {
			f.payload = append([]byte{0x03, 0xe8, 0xff}, vPattern(120, 0x41)...)
			for k := 3; k < len(f.payload); k++ {
				f.payload[k] = 'a' + f.payload[k]%26
			}
		}
		return f, true
	case 15: // 64-bit length with the top bit set
		f.opcode = uint8(1 + vChoice(2))
		f.lenForm = 64
		f.topBit = true
		return f, true
	}
	f.payload = vBytes(n)
	// sequencing violations arise from the kind vs. the message state
	if (f.opcode == 1 || f.opcode == 2) && inMsg {
		violating = true
	}
	if f.opcode == 0 && !inMsg {
		violating = true
	}
	return f, violating
}

func encodeSeqFrame(f seqFrame) []byte {
	var key [4]byte
	if f.masked {
		key = [4]byte{vU8(), vU8(), vU8(), vU8()}
	}
	b := encodeFrame(f.fin, f.rsv, f.opcode, f.masked, key, f.lenForm, f.payload)
	if f.topBit {
		b[2] |= 0x80
	}
	return b
}

// HarnessC14_Seq: sequences of frames; the reader delivers exactly the reference receiver's
// messages up to the first violation, then fails permanently with a 1002 close; pings are
// answered; the read limit is enforced under any framing.
func HarnessC14_Seq() {
	isServer := vBool()
	depth := 2
	if vTier() == 1 {
		depth = 3
	}
	limits := []int{0, 2}
	if vTier() == 1 {
		limits = []int{0, 2} // (more limits or byte-wise reads: the depth-3 space did not finish in 25 minutes)
	}
	limit := limits[vChoice(len(limits))]
	var frames []seqFrame
	var wire []byte
	inMsg := false
	for k := 0; k < depth; k++ {
		f, bad := genFrame(isServer, k == 0, inMsg)
		frames = append(frames, f)
		wire = append(wire, encodeSeqFrame(f)...)
		if bad || f.opcode == 8 {
			break
		}
		if f.opcode <= 2 {
			inMsg = !f.fin
		}
	}
	msgs, violAt, pongs, closedAt, limitAt := refReceive(frames, isServer, limit)
	fc := newFakeConn(wire)
	// (byte-wise delivery is exercised by C14_Cut and C07_Websocket; here it doubled a space that
	// already did not finish within the thorough budget)
	c := newConn(fc, isServer, 0, 0)
	c.SetReadLimit(int64(limit))
	for _, want := range msgs {
		mt, p, err := c.ReadMessage()
		vAssert(err == nil, "a message of conformant frames is delivered")
		if err != nil {
			return
		}
		vAssert(mt == want.mt, "message type as sent")
		vAssert(len(p) == len(want.payload), "message length is the sum of its frames' payloads")
		if len(p) == len(want.payload) {
			vAssert(vEqBytes(p, want.payload), "message payload is the concatenated unmasked payloads")
		}
	}
	_, p, err := c.ReadMessage()
	vAssert(err != nil, "nothing but the sent messages is delivered (no short or extra message)")
	if err == nil {
		_ = p
		return
	}
	sent, ok := parseFrames(fc.wire)
	vAssert(ok, "what the reader writes back are whole frames")
	if !ok {
		return
	}
	// pongs first, in order
	npong := 0
	for _, f := range sent {
		if f.opcode == 10 {
			if npong < len(pongs) {
				same := len(f.payload) == len(pongs[npong])
				if same {
					same = vEqBytes(f.payload, pongs[npong])
				}
				vAssert(same, "pong carries the ping's payload")
			}
			npong++
		}
	}
	vAssert(npong == len(pongs), "every ping is answered by exactly one pong")
	var lastClose *wireFrame
	for k := range sent {
		if sent[k].opcode == 8 {
			lastClose = &sent[k]
		}
		vAssert(sent[k].masked == !isServer, "frames written back are masked iff written by a client")
	}
	switch {
	case violAt >= 0 && frames[violAt].topBit:
		// the property only demands that such a length is never accepted as a frame
		_, _, e2 := c.ReadMessage()
		vAssert(e2 != nil, "reading fails permanently after a length with the top bit set")
		vReach("seq-topbit")
	case violAt >= 0:
		good := lastClose != nil && len(lastClose.payload) >= 2 && lastClose.payload[0] == 0x03 && lastClose.payload[1] == 0xea
		vAssert(good, "a Close frame with status 1002 is sent at the first rule violation")
		_, _, e2 := c.ReadMessage()
		vAssert(e2 != nil, "reading fails permanently after a rule violation")
		vReach("seq-violation")
	case limitAt >= 0:
		vAssert(err == ErrReadLimit, "a message larger than the read limit fails with the limit error")
		vReach("seq-limit")
	case closedAt >= 0:
		_, isClose := err.(*CloseError)
		vAssert(isClose, "a close frame ends reading with a close error")
		vAssert(lastClose != nil, "the close is echoed")
		vReach("seq-close")
	default:
		// the stream simply ended: inside a fragmented message or between messages
		vReach("seq-eof")
	}
}

// HarnessC14_Cut: a stream cut inside a frame or a fragmented message ends in an error, never
// in a short message.
func HarnessC14_Cut() {
	isServer := vBool()
	f1 := seqFrame{fin: vBool(), opcode: uint8(1 + vChoice(2)), masked: isServer, lenForm: []int{7, 16}[vChoice(2)], payload: vBytes(1 + vChoice(3))}
	frames := []seqFrame{f1}
	if !f1.fin {
		frames = append(frames, seqFrame{fin: true, opcode: 0, masked: isServer, lenForm: 7, payload: vBytes(vChoice(3))})
	}
	var wire []byte
	for _, f := range frames {
		wire = append(wire, encodeSeqFrame(f)...)
	}
	fc := newFakeConn(wire)
	fc.cut = vChoice(len(wire)) // strictly inside the message
	if vChoice(2) == 1 {
		fc.chunk = 1
	}
	c := newConn(fc, isServer, 0, 0)
	_, p, err := c.ReadMessage()
	vAssert(err != nil, "a cut stream ends in an error, never in a short message")
	_ = p
	_, _, e2 := c.ReadMessage()
	vAssert(e2 != nil, "the error is permanent")
	vReach("cut")
}

// HarnessC14_LimitAcross: the read limit counts a message's payload over all its fragments,
// whatever control frames arrive in between: data (not final), 0-2 pings/pongs, continuation
// (final), with the limit around the total.
func HarnessC14_LimitAcross() {
	isServer := vBool()
	n1 := 1 + vChoice(2)
	n2 := 1 + vChoice(2)
	limit := 1 + vChoice(4)
	nctl := vChoice(3)
	op := uint8(1 + vChoice(2))
	p1, p2 := vBytes(n1), vBytes(n2)
	wire := encodeSeqFrame(seqFrame{fin: false, opcode: op, masked: isServer, lenForm: 7, payload: p1})
	for k := 0; k < nctl; k++ {
		wire = append(wire, encodeSeqFrame(seqFrame{fin: true, opcode: uint8(9 + vChoice(2)), masked: isServer, lenForm: 7})...)
	}
	wire = append(wire, encodeSeqFrame(seqFrame{fin: true, opcode: 0, masked: isServer, lenForm: 7, payload: p2})...)
	fc := newFakeConn(wire)
	c := newConn(fc, isServer, 0, 0)
	c.SetReadLimit(int64(limit))
	mt, p, err := c.ReadMessage()
	if n1+n2 > limit {
		vAssert(err == ErrReadLimit, "a fragmented message larger than the read limit fails with the limit error, control frames in between or not")
		vReach("across-limit")
		return
	}
	vAssert(err == nil, "a fragmented message within the read limit is delivered")
	if err != nil {
		return
	}
	vAssert(mt == int(op), "message type as sent")
	vAssert(len(p) == n1+n2, "message length is the sum of its fragments")
	if len(p) == n1+n2 {
		vAssert(vEqBytes(p, append(append([]byte(nil), p1...), p2...)), "message payload is the concatenated fragments")
	}
	vReach("across-ok")
}

// HarnessC14_SmallBuf: control frames of up to 125 bytes are handled whatever read buffer size
// the application configured: a ping of 17..125 bytes through a read buffer of 1..124 bytes is
// answered by a pong with the same payload and the following message is delivered.
func HarnessC14_SmallBuf() {
	isServer := vBool()
	rb := []int{1, 16, 64, 124}[vChoice(4)]
	n := []int{17, 65, 125}[vChoice(3)]
	ping := vPattern(n, 7)
	ping[0], ping[n-1] = vU8(), vU8()
	data := vBytes(2)
	wire := encodeSeqFrame(seqFrame{fin: true, opcode: 9, masked: isServer, lenForm: 7, payload: ping})
	wire = append(wire, encodeSeqFrame(seqFrame{fin: true, opcode: 2, masked: isServer, lenForm: 7, payload: data})...)
	fc := newFakeConn(wire)
	c := newConn(fc, isServer, rb, 0)
	mt, p, err := c.ReadMessage()
	vAssert(err == nil, "the message after a ping is delivered with any configured read buffer size")
	if err != nil {
		return
	}
	vAssert(mt == BinaryMessage && len(p) == 2, "message as sent")
	if len(p) == 2 {
		vAssert(vEqBytes(p, data), "message payload as sent")
	}
	sent, ok := parseFrames(fc.wire)
	vAssert(ok && len(sent) == 1 && sent[0].opcode == 10, "the ping is answered by exactly one pong")
	if ok && len(sent) == 1 {
		same := len(sent[0].payload) == n
		if same {
			same = vEqBytes(sent[0].payload, ping)
		}
		vAssert(same, "pong carries the ping's payload")
	}
	vReach("smallbuf")
}
