package websocket

import "time"

// C15: concurrent control frames never corrupt the frame stream.

type c15Result struct {
	who string
	err error
}

// HarnessC15_Concurrent: one goroutine writes a multi-frame data message while others send
// control frames and a close; every schedule of their synchronisation operations.
func HarnessC15_Concurrent() {
	server := vBool()
	fc := newFakeConn(nil)
	fc.hook = func(p []byte) { vSchedPoint() } // the transport write is a place where threads interleave
	fc.deadlines = true                         // a control sender's deadline must never cut a data frame that is being written
	c := newConn(fc, server, 0, 1)              // 15-byte write buffer: the message spans several frames
	var data []byte
	direct := false
	if server && vChoice(2) == 1 {
		// a write larger than twice the buffer is sent unbuffered (header and tail in one call)
		data = vPattern(31, 3)
		data[0], data[30] = vU8(), vU8()
		direct = true
	} else {
		n := 2
		if vTier() == 1 {
			n = 2 + vChoice(2)
		}
		data = vBytes(n)
	}
	pingData := vBytes(1)
	if vTier() == 1 {
		pingData = vBytes(vChoice(2))
	}
	withClose := vChoice(2) == 0 // the richer configuration is explored first
	// finite: the control senders pass a deadline two milliseconds ahead; waiting for the write lock may
	// then time out (the symbolic run forks on the timer firing)
	finite := vChoice(2) == 0
	deadline := time.Time{}
	if finite {
		deadline = time.Now().Add(2 * time.Millisecond)
	}
	// thorough: two control senders beside the data writer when no close is sent (with the close as a
	// fourth party the schedule space exceeds 5 million paths: measured, outside the registered bound)
	nctl := 1
	if vTier() == 1 && !withClose {
		nctl = 1 + vChoice(2)
	}
	done := make(chan c15Result, 8)
	// data writer
	// the data writer may work under a write deadline of its own; it closes its message writer
	// whatever Write returned (the usual deferred Close)
	dataDL := !withClose && !direct && vChoice(2) == 0
	go func() {
		if dataDL {
			c.SetWriteDeadline(time.Now().Add(2 * time.Millisecond))
		}
		w, err := c.NextWriter(BinaryMessage)
		if err == nil {
			_, err = w.Write(data)
			if cerr := w.Close(); err == nil {
				err = cerr
			}
		}
		done <- c15Result{"data", err}
	}()
	for k := 0; k < nctl; k++ {
		mt := PingMessage
		if k == 1 {
			mt = PongMessage
		}
		go func() {
			done <- c15Result{"ctl", c.WriteControl(mt, pingData, deadline)}
		}()
	}
	if withClose {
		go func() {
			err := c.WriteControl(CloseMessage, FormatCloseMessage(CloseNormalClosure, ""), time.Time{})
			done <- c15Result{"close", err}
		}()
	}
	total := 1 + nctl
	if withClose {
		total++
	}
	var results []c15Result
	for k := 0; k < total; k++ {
		results = append(results, <-done)
	}
	_ = direct
	// ---- the wire ----
	frames, ok := parseFrames(fc.wire)
	vAssert(ok, "the bytes on the wire are a sequence of whole, well-formed frames")
	if !ok {
		return
	}
	var got []byte
	closeAt := -1
	started, finished := false, false
	for k, f := range frames {
		vAssert(f.masked == !server, "frames are masked iff written by a client")
		switch f.opcode {
		case 8:
			if closeAt < 0 {
				closeAt = k
			}
			vAssert(f.fin && len(f.payload) <= 125, "control frames are unfragmented and short")
		case 9, 10:
			vAssert(f.fin && len(f.payload) <= 125, "control frames are unfragmented and short")
			same := len(f.payload) == len(pingData)
			if same {
				same = vEqBytes(f.payload, pingData)
			}
			vAssert(same, "a control frame carries exactly its payload")
		case 2:
			vAssert(!started, "the data message starts once")
			started = true
			got = append(got, f.payload...)
			finished = f.fin
		case 0:
			vAssert(started && !finished, "continuation frames follow the started message")
			got = append(got, f.payload...)
			finished = f.fin
		default:
			vAssert(false, "only data, continuation and control frames appear")
		}
	}
	if closeAt >= 0 {
		vAssert(closeAt == len(frames)-1, "after a Close frame nothing further reaches the wire")
	}
	var dataErr error
	for _, r := range results {
		if r.who == "data" {
			dataErr = r.err
		}
		if r.err != nil {
			if ne, ok := r.err.(*netError); ok && ne.timeout && finite && r.who == "ctl" {
				continue // the control write gave up waiting for the write lock: nothing was written for it
			}
			vAssert(withClose && r.err == ErrCloseSent, "a write fails only because a close was sent, with the close-sent error")
		}
	}
	if finished {
		// whatever the writer was told: a message that is complete on the wire is the message written
		same := len(got) == len(data)
		if same {
			same = vEqBytes(got, data)
		}
		vAssert(same, "a data message that is complete on the wire is intact")
	}
	if dataErr == nil {
		vAssert(started && finished, "a data message reported as written is complete on the wire")
		vAssert(len(got) == len(data), "the data message is intact")
		if len(got) == len(data) {
			vAssert(vEqBytes(got, data), "the data message is intact and in order")
		}
	}
	// every later write is refused once a close was sent
	if closeAt >= 0 {
		vAssert(c.WriteMessage(BinaryMessage, []byte{1}) == ErrCloseSent, "after a Close frame every later write fails with the close-sent error")
		vAssert(c.WriteControl(PingMessage, nil, time.Time{}) == ErrCloseSent, "after a Close frame every later control write fails with the close-sent error")
		n := len(fc.wire)
		vAssert(len(fc.wire) == n, "nothing is written after the close")
	}
	vReach("concurrent")
}
