package websocket

import (
	"io"
	"net"
	"sync/atomic"
	"time"
)

// fakeConn is the harness transport: reads come from a byte slice (optionally segmented and
// cut), every Write call is recorded.
type fakeConn struct {
	data   []byte
	pos    int
	chunk  int // max bytes per Read (0 = unlimited)
	cut    int // -1 = none: after cut bytes Read returns cutErr / io.EOF
	cutErr error
	writes [][]byte
	wire   []byte
	closed bool
	// fault injection for writes
	failAt  int
	failErr error
	hook    func(p []byte) // called inside Write before the bytes are recorded (schedule point)
	// deadlines: the transport honours write deadlines the way a net.Conn does: a deadline put on
	// the connection while a Write without deadline is in progress applies to that Write, which is
	// then cut short (modelled as expiring at once)
	deadlines bool
	wdl       int64 // current write deadline in ns since the epoch, 0 = none (atomic)
}

func newFakeConn(data []byte) *fakeConn { return &fakeConn{data: data, cut: -1, failAt: -1} }

func (c *fakeConn) Read(p []byte) (int, error) {
	limit := len(c.data)
	if c.cut >= 0 && c.cut < limit {
		limit = c.cut
	}
	if c.pos >= limit {
		if c.cut >= 0 && c.cutErr != nil {
			return 0, c.cutErr
		}
		return 0, io.EOF
	}
	n := len(p)
	if n > limit-c.pos {
		n = limit - c.pos
	}
	if c.chunk > 0 && n > c.chunk {
		n = c.chunk
	}
	copy(p, c.data[c.pos:c.pos+n])
	c.pos += n
	return n, nil
}

func (c *fakeConn) Write(p []byte) (int, error) {
	if c.failAt >= 0 && len(c.writes) == c.failAt {
		c.writes = append(c.writes, nil)
		return 0, c.failErr
	}
	d0 := atomic.LoadInt64(&c.wdl)
	if c.hook != nil {
		c.hook(p)
	}
	if c.deadlines && d0 == 0 && atomic.LoadInt64(&c.wdl) != 0 {
		cp := append([]byte(nil), p[:len(p)/2]...)
		c.writes = append(c.writes, cp)
		c.wire = append(c.wire, cp...)
		return len(cp), &netError{msg: "i/o timeout (deadline set during the write)", timeout: true}
	}
	cp := append([]byte(nil), p...)
	c.writes = append(c.writes, cp)
	c.wire = append(c.wire, cp...)
	return len(p), nil
}

func (c *fakeConn) Close() error                       { c.closed = true; return nil }
func (c *fakeConn) LocalAddr() net.Addr                { return nil }
func (c *fakeConn) RemoteAddr() net.Addr               { return nil }
func (c *fakeConn) SetDeadline(t time.Time) error      { return nil }
func (c *fakeConn) SetReadDeadline(t time.Time) error  { return nil }
func (c *fakeConn) SetWriteDeadline(t time.Time) error {
	if t.IsZero() {
		atomic.StoreInt64(&c.wdl, 0)
	} else {
		atomic.StoreInt64(&c.wdl, t.UnixNano())
	}
	return nil
}

// ---------------------------------------------------------------------------------------
// Independent RFC 6455 frame parser (sections 5.2, 5.5) over captured wire bytes.

type wireFrame struct {
	fin     bool
	rsv     uint8
	opcode  uint8
	masked  bool
	lenForm int // 7, 16 or 64
	payload []byte // unmasked
	key     [4]byte
}

// parseFrames parses b as a sequence of whole frames; ok=false if it is not.
func parseFrames(b []byte) (frames []wireFrame, ok bool) {
	for len(b) > 0 {
		if len(b) < 2 {
			return frames, false
		}
		f := wireFrame{fin: b[0]&0x80 != 0, rsv: b[0] >> 4 & 7, opcode: b[0] & 0xf, masked: b[1]&0x80 != 0, lenForm: 7}
		n := int(b[1] & 0x7f)
		pos := 2
		switch n {
		case 126:
			if len(b) < 4 {
				return frames, false
			}
			n = int(b[2])<<8 | int(b[3])
			pos = 4
			f.lenForm = 16
		case 127:
			if len(b) < 10 {
				return frames, false
			}
			if b[2]&0x80 != 0 {
				return frames, false
			}
			n = 0
			for k := 2; k < 10; k++ {
				n = n<<8 | int(b[k])
			}
			pos = 10
			f.lenForm = 64
		}
		if f.masked {
			if len(b) < pos+4 {
				return frames, false
			}
			copy(f.key[:], b[pos:pos+4])
			pos += 4
		}
		if len(b) < pos+n {
			return frames, false
		}
		f.payload = append([]byte(nil), b[pos:pos+n]...)
		if f.masked {
			for k := range f.payload {
				f.payload[k] ^= f.key[k&3]
			}
		}
		frames = append(frames, f)
		b = b[pos+n:]
	}
	return frames, true
}

// encodeFrame is the reference frame writer used to build peer traffic.
func encodeFrame(fin bool, rsv, opcode uint8, masked bool, key [4]byte, lenForm int, payload []byte) []byte {
	b0 := rsv<<4 | opcode
	if fin {
		b0 |= 0x80
	}
	var b1 uint8
	if masked {
		b1 = 0x80
	}
	n := len(payload)
	out := []byte{b0}
	switch lenForm {
	case 7:
		out = append(out, b1|uint8(n))
	case 16:
		out = append(out, b1|126, byte(n>>8), byte(n))
	default:
		out = append(out, b1|127, 0, 0, 0, 0, byte(n>>24), byte(n>>16), byte(n>>8), byte(n))
	}
	if masked {
		out = append(out, key[:]...)
		for k, c := range payload {
			out = append(out, c^key[k&3])
		}
	} else {
		out = append(out, payload...)
	}
	return out
}

// validUTF8 is an independent UTF-8 validity check (RFC 3629) for short symbolic strings.
func validUTF8(b []byte) bool {
	i := 0
	for i < len(b) {
		c := b[i]
		switch {
		case c < 0x80:
			i++
		case c >= 0xc2 && c <= 0xdf:
			if i+1 >= len(b) || b[i+1]&0xc0 != 0x80 {
				return false
			}
			i += 2
		case c >= 0xe0 && c <= 0xef:
			if i+2 >= len(b) || b[i+1]&0xc0 != 0x80 || b[i+2]&0xc0 != 0x80 {
				return false
			}
			if c == 0xe0 && b[i+1] < 0xa0 {
				return false
			}
			if c == 0xed && b[i+1] > 0x9f {
				return false
			}
			i += 3
		case c >= 0xf0 && c <= 0xf4:
			if i+3 >= len(b) || b[i+1]&0xc0 != 0x80 || b[i+2]&0xc0 != 0x80 || b[i+3]&0xc0 != 0x80 {
				return false
			}
			if c == 0xf0 && b[i+1] < 0x90 {
				return false
			}
			if c == 0xf4 && b[i+1] > 0x8f {
				return false
			}
			i += 4
		default:
			return false
		}
	}
	return true
}

func validCloseCode(code int) bool {
	return (code >= 1000 && code <= 1003) || (code >= 1007 && code <= 1013) || (code >= 3000 && code <= 4999)
}
