package websocket

// HarnessC13_Mask: maskBytes (the word-at-a-time implementation with unsafe pointers) equals
// the byte-wise definition of RFC 6455 5.3 for every buffer content, key, starting position
// and buffer alignment, and returns the next key position.
func HarnessC13_Mask() {
	lens := []int{0, 1, 7, 15, 16, 17, 23, 24, 25, 31, 33}
	if vTier() == 1 {
		lens = []int{0, 1, 7, 15, 16, 17, 23, 24, 25, 31, 32, 33, 40, 47, 48, 63, 64, 65, 100}
	}
	n := lens[vChoice(len(lens))]
	data := vBytes(n)
	key := [4]byte{vU8(), vU8(), vU8(), vU8()}
	pos := vChoice(4)
	want := make([]byte, n)
	p := pos
	for k := range data {
		want[k] = data[k] ^ key[p&3]
		p++
	}
	got := append([]byte(nil), data...)
	ret := maskBytes(key, pos, got)
	vAssert(ret == p&3, "maskBytes returns the key position after the buffer")
	vAssert(vEqBytes(got, want), "maskBytes XORs byte k with key[(pos+k) mod 4]")
	// masking twice with the returned positions restores the data (the reader's use)
	again := append([]byte(nil), got...)
	maskBytes(key, pos, again)
	vAssert(vEqBytes(again, data), "masking is an involution")
	vReach("mask")
}
