#!/bin/bash
# usage: confirm_mutant.sh <PROP> <X> : confirms /tmp/wt-out/PROP/X in a scratch worktree of /repo HEAD and stores it in /verif/seeded/PROP-X/
prop=$1; x=$2; src=/tmp/wt-out/$prop/$x
export GOFLAGS=-mod=mod GOPROXY=off GOSUMDB=off GOTOOLCHAIN=local
wt=$(mktemp -d /tmp/confirm-XXXXXX); rmdir $wt
git -C /repo worktree add -q --detach $wt HEAD || exit 2
trap "git -C /repo worktree remove --force $wt; rm -rf $wt" EXIT
dir=$(head -1 $src/demo_test.go | sed -n 's,.*place in: *\([A-Za-z0-9_/.-]*\).*,\1,p'); dir=${dir%/}
[ -z "$dir" ] && { echo "no place-in line"; exit 2; }
cp $src/demo_test.go $wt/$dir/zz_demo_test.go
cd $wt
go test -vet=off -count=1 ./$dir/ > /tmp/confirm_clean.out 2>&1; clean=$?
git apply $src/patch.diff || { echo "PATCH-DOES-NOT-APPLY to HEAD"; exit 3; }
go build ./... || { echo "BUILD FAILS"; exit 3; }
go test -vet=off -count=1 ./$dir/ > /tmp/confirm_mut.out 2>&1; mut=$?
rm $wt/$dir/zz_demo_test.go
go test -vet=off -count=1 ./... > /tmp/confirm_suite.out 2>&1; suite=$?
echo "demo clean rc=$clean  demo mutated rc=$mut  suite mutated rc=$suite"
if [ $clean -eq 0 ] && [ $mut -ne 0 ] && [ $suite -eq 0 ]; then
  d=/verif/seeded/$prop-$x; mkdir -p $d
  cp $src/patch.diff $d/patch.diff; cp $src/demo_test.go $d/demo_test.go; cp $src/notes.md $d/notes.md 2>/dev/null
  echo CONFIRMED
else
  grep -E "FAIL|ok|panic" /tmp/confirm_clean.out | head -5; echo ---; grep -E "FAIL|ok" /tmp/confirm_suite.out | head
  echo NOT-CONFIRMED
fi
