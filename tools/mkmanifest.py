#!/usr/bin/env python3
"""Generate /verif/MANIFEST.json from the table below (kept next to the registry in engine/registry.go)."""
import json, os
ROOT = os.path.dirname(os.path.dirname(os.path.abspath(__file__)))

TRUST = ("Trusted: go/packages+go/ssa of x/tools v0.29.0 (the SSA is what is executed), the gosymex instruction semantics and "
         "the stubs listed in the evidence file, the reference model in the harness, z3 4.8.12/cvc5 1.0. Mitigated by native replay of every "
         "counterexample and of sampled paths against the real build (go test -overlay). Holds only within the stated bounds.")

def std(text):
    return (text + " Decided per path by SMT queries over all values of the symbolic inputs within the bound; bounded symbolic execution is the right level because the defects of this code live at field-width and length boundaries that one query covers completely.",
            "Bounds per harness are in evidence.coverage.bounds. " + TRUST,
            "bounded symbolic execution of go/ssa + SMT (z3/cvc5), differential against a reference model written from the specification")

claimed = {
 # id: (text, note, technique)
 "C01": std("RTMP session: header generators and parsers agree for every timestamp < 2^31, 24-bit length, type and stream id (one query per path covers all boundary values); sequences of messages with symbolic contents, with a Set Chunk Size of symbolic size announced at forked positions, are read back identically under forked transport segmentations; simple handshake included."),
 "C02": std("RTMP reader vs an independent chunker written from the specification: forked header types 0-3, 1/2/3-byte basic headers with symbolic chunk stream ids, symbolic timestamps/deltas incl. extended ones, interleaved chunk streams with a symbolic chunk size; rule-breaking streams must be rejected. One recorded known finding (extended delta taken as absolute time)."),
 "C03": std("RTMP packets: every packet kind marshals to exactly Size() bytes and unmarshals to equal fields (all 65536 user-control event types and all uint32 control values in one symbolic run); over the wire the peer decodes the protocol's packet type and re-marshals the same payload; request/response histories with symbolic transaction ids are matched exactly once or rejected; typed waits skip earlier traffic."),
 "C04": ("All schedules of the synchronisation operations of one writer and one reader goroutine on the same connection are explored as forked decisions of the symbolic execution (requests with symbolic transaction ids); on every schedule every response is decoded as its request's response type exactly once, with no 'no matched request' and no data race by vector-clock happens-before detection. Bounded schedule exploration is the right level: the defect class is an ordering between two sites that no single-threaded test reaches.",
         "2 threads, 1-2 requests; context switches at visible operations only, races reported rather than explored. " + TRUST,
         "bounded symbolic execution with exhaustive schedule forking (engine threads) + vector-clock race detection + SMT for the symbolic ids"),
 "C05": std("AMF0 trees (shapes forked, contents symbolic: all 2^64 number bit patterns incl. NaN payloads/-0, booleans, string bytes) marshal to exactly Size() bytes, unmarshal to an equal tree in key order and re-marshal to the same bytes; for every byte string up to the bound that decodes, Size() equals the bytes consumed as counted by an independent grammar-level decoder, including repeated/empty keys and trailing bytes."),
 "C06": std("Library encodings are decoded to the same value by a reference decoder written from the AMF0 specification and reference encodings by the library; all 256 markers: supported ones give the right type, all others an error. One recorded known finding (keyed strict arrays)."),
 "C13": ("Claimed for constructed connections (no handshake): messages written by a client or server endpoint through every write API (WriteMessage, NextWriter+partial Writes at every split, WriteString, ReadFrom, prepared message) with small and default write buffers put only whole RFC 6455 frames on the wire (FIN/continuation sequencing, masking per role, minimal length form at the 125/126 and 65535/65536 boundaries, RSV clear) as judged by an independent frame parser, and the peer reads the same (type, payload) sequence; payload bytes and the mask key are symbolic. Per-message deflate is covered in a reduced form (compress/flate is interpreted: concrete payloads for the Huffman levels, symbolic payloads for stored blocks; RSV1 on the first frame only, an RFC 7692 receiver recovers the message, and the library reads what an RFC 7692 sender wrote under forked fragmentation). Dial/Upgrade/accept-key/extension negotiation and the JSON helpers are NOT claimed (net/http, SHA-1, encoding/json are not encodable).",
         "Subset as stated; bounds in evidence.coverage.bounds. " + TRUST,
         "bounded symbolic execution of go/ssa + SMT, differential against an RFC 6455 reference frame parser"),
 "C14": std("WebSocket reader vs a reference RFC 6455 receiver: one frame from an arbitrary valid reader state with all header bytes symbolic (every 64-bit length incl. >= 2^63, every opcode/RSV/mask combination, symbolic read limit and message size) and sequences of frames of forked kinds: accept/reject decision, 1002 close on violation, permanent failure, pong echo, read-limit enforcement without overflow, cut streams never yield a short message."),
 "C15": ("All schedules (modulo sound partial-order reduction) of one data writer sending a multi-frame message, control-frame senders and a closer on one connection are explored as forked decisions; on each, the bytes handed to the transport parse as whole well-formed frames with control frames only between frames, the data message is intact and in order, nothing follows a Close frame and later writes fail with the close-sent error; no data race by vector-clock happens-before detection. Claimed for 3-4 threads; a concurrent reader and expiring write deadlines are outside.",
         "Bounded number of threads and frames; reductions and their soundness conditions are listed in the evidence assumptions. " + TRUST,
         "bounded symbolic execution with schedule forking (sleep-set reduced) + vector-clock race detection + RFC 6455 reference frame parser"),
 "C17": std("Comment stripping: for JSON documents built from templates with symbolic string contents (so quotes via escapes, slashes, stars, apostrophes are solver choices) and symbolic comment contents in every slot between tokens, under forked read segmentations, the reader's output equals the document with its comments removed (comment-free documents pass byte for byte); counterexamples are confirmed natively with encoding/json as the oracle, so a whitespace-only deviation cannot raise an alarm."),
 "C18": ("Claimed for the connection-id clauses: on every schedule of goroutines creating contexts concurrently all ids are pairwise distinct and the id counter is accessed without a data race (vector-clock detection, confirmed natively under -race); an aliased context carries exactly its source's id and a fresh unused one when the source has none; for each kind of context (nil, application object with Cid(), context.Context with/without id) both formatting paths hand [pid] and the passed context's id to the formatter. NOT claimed: emission of exactly one whole, non-interleaved line per call (log.Logger, fmt, time and os.File are not encodable).",
         "Subset as stated. " + TRUST,
         "bounded symbolic execution with schedule forking + vector-clock race detection"),
 "C20": std("Rate meters: a window samples iff a full window passed (integer/time logic by bit-vector queries), slower windows only after faster ones, rate bit-exactly equal to the IEEE evaluation of growth*1000/window_ms and proved finite and non-negative for every counter value (stall, backwards, wrap) in the FP theory; average and kbit/s scaling likewise; reading before Start panics."),
 "C07": ("For every byte string up to the stated length given to each claimed decoder, every panic site (index, slice bounds, nil dereference, make size, division, type assertion) is shown infeasible by the solver on every path, and every path terminates within its step budget (a budget overrun is replayed natively under a watchdog and reported as a stall only if the real code hangs); enum helpers are total over their whole underlying type. Claimed for the byte-level decoders only: JWS/JWE/JWK/OCSP parsing needs encoding/json, encoding/asn1, reflection and math/big, which the engine cannot encode. The linear-time clause is checked in a reduced form: for each claimed decoder family (AMF0, RTMP chunk reader, FLV, ADTS, AVC samples, WebSocket reader, JSON+ reader, key wrap) well-formed inputs of a few adversarial shapes at three sizes n, 2n, 4n must satisfy cost(4n)-cost(2n) <= 2.5 (cost(2n)-cost(n)) under the cost model instructions interpreted + elements copied; arbitrary inputs are only shown to terminate within the step budget.",
         "Subset and bounds in evidence.coverage.bounds and assumptions. " + TRUST,
         "bounded symbolic execution of go/ssa + SMT: panic-site infeasibility queries over arbitrary input bytes"),
 "C08": ("Fault enumeration decided per path by the solver: every cut offset of generated RTMP sessions and FLV files and every failing write call is a forked fault position; on each, the operation returns a non-nil error whose errors.Cause is exactly the transport's error, the items returned before are exactly those completely transferred (contents symbolic), and nothing incomplete is returned with a nil error; the errors package keeps cause and message chain for every nesting of its constructors.",
         "Bounds per harness are in evidence.coverage.bounds. " + TRUST,
         "bounded symbolic execution of go/ssa + SMT with exhaustive fault-position forking"),
 "C09": std("FLV muxer bytes equal an independent FLV v1 writer for symbolic flags/type/timestamp/body bytes and boundary body sizes; muxer and reference files are demuxed to identical tags under every forked read segmentation."),
 "C10": std("FLV audio/video packagers: decode(encode(f)) == f for every valid frame with fields symbolic over their Go types; encode(decode(b)) == b for every accepted canonical body of 1-7 bytes; rate-code conversions equal the FLV/Opus definitions."),
 "C12": std("AVC NAL units (all 256 header bytes), configuration records and samples: marshal equals an ISO/IEC 14496-15 reference writer byte for byte, unmarshal inverts both, canonical encodings re-marshal to themselves."),
 "C11": ("For every input within the bound the solver shows the assertion cannot fail on any path of the real aac code: all 65536 AudioSpecificConfigs, "
         "ADTS encode/decode with symbolic configuration and payload bytes at boundary lengths, ISO 13818-7 reference writer with symbolic header bits. "
         "Bounded symbolic execution is the right level: the defects live at bit-field boundaries that one query covers completely.",
         "Bounds per harness are in evidence.coverage.bounds. " + TRUST,
         "bounded symbolic execution of go/ssa + SMT (z3/cvc5), differential against an ISO reference model"),
}

not_applicable = {
 "C16": "Cryptographic: whether a flipped bit makes verification fail depends on HMAC-SHA2/RSA/ECDSA/AES-GCM computing what they compute; bit-blasting one SHA-256 compression over symbolic input is beyond the solver budget and stubbing the primitives removes the fact to decide; parsing runs through encoding/json reflection which the engine does not encode. (DESIGN.md section 5, C16)",
 "C19": "Every observable (status line, headers, JSON body, client parse) is produced by net/http, net/url, fmt and encoding/json's reflection-driven marshaller; after stubbing those no library computation is left to decide. (DESIGN.md section 5, C19)",
}
pending = {}
for i in range(1, 21):
    pid = "C%02d" % i
    if pid not in claimed and pid not in not_applicable:
        pending[pid] = "check not built yet in this session (planned, see DESIGN.md section 5); not claimed until its harness runs clean"

checks = []
for pid in sorted(claimed):
    text, note, tech = claimed[pid]
    checks.append({
        "property_id": pid,
        "quick_cmd": "./bin/gosymex check --property %s --tier quick" % pid,
        "thorough_cmd": "./bin/gosymex check --property %s --tier thorough" % pid,
        "evidence_file": "/verif/evidence/%s.json" % pid,
        "replay_cmd_template": "./bin/gosymex replay {path}",
        "engine": "gosymex",
        "level_claimed": {"category": "model_checking", "text": text, "design_ref": "DESIGN.md section 5, " + pid},
        "level_note": note,
        "technique": tech,
    })

m = {
 "version": 1,
 "setup_cmd": "cd /verif/engine && GOFLAGS=-mod=mod GOPROXY=off GOSUMDB=off GOTOOLCHAIN=local go build -o ../bin/gosymex .",
 "hooks": {
   "guard": "verif",
   "enable": "no hooks: harness files are injected through go/packages overlays (symbolic run) and `go test -overlay` (native replay); nothing in /repo is modified",
   "baseline_off_cmd": "cd /repo && GOFLAGS=-mod=mod go test -vet=off -count=1 ./...",
   "source_commits": [],
   "add_only": True,
 },
 "engines": [{"name": "gosymex", "path": "/verif/engine", "serves_properties": sorted(claimed),
              "kind_free_text": "path-exploring symbolic interpreter over go/ssa (fork of x/tools go/ssa/interp) with z3/cvc5 as deciding step; encoding regenerated from /repo on every run"}],
 "checks": checks,
 "notes": "Known findings and fixed defects: /verif/known_findings.json. Seeded mutants: /verif/seeded/. See DESIGN.md.",
 "not_applicable": [{"property_id": k, "reason": v} for k, v in sorted({**not_applicable, **pending}.items())],
}
json.dump(m, open(os.path.join(ROOT, "MANIFEST.json"), "w"), indent=1)
print("wrote MANIFEST.json:", len(checks), "checks,", len(m["not_applicable"]), "not applicable")
