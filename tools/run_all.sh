#!/bin/bash
# Runs every registered check of the given tier (default quick) against /repo and prints one line per property.
tier=${1:-quick}
cd /verif || exit 2
git -C /repo diff --quiet || { echo "/repo is dirty"; exit 2; }
for p in $(python3 -c "import json; print(' '.join(c['property_id'] for c in json.load(open('MANIFEST.json'))['checks']))"); do
  s=$(date +%s)
  ./bin/gosymex check --property $p --tier $tier > /tmp/run_all_$p.log 2>&1
  rc=$?
  echo "$p rc=$rc $(( $(date +%s) - s ))s $(grep -E '^property' /tmp/run_all_$p.log | cut -c1-200)"
  grep -E "^VIOLATION|VACUOUS|REPLAY-ERROR" /tmp/run_all_$p.log | head -3
done
