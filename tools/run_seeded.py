#!/usr/bin/env python3
"""Run every seeded mutant in /verif/seeded against the check of its property and record the outcome in meta.json.
Usage: run_seeded.py [--repo DIR] [--tier quick|thorough] [ids...]
The mutant is applied to DIR (default /repo; use a scratch copy for background runs), the check is run with
VERIF_REPO=DIR, and the patch is reverted straight afterwards."""
import json, os, re, subprocess, sys, time

ROOT = os.path.dirname(os.path.dirname(os.path.abspath(__file__)))
args = sys.argv[1:]
repo = "/repo"
tier = "quick"
workers = None
binname = os.environ.get("GOSYMEX_BIN", "gosymex")
ids = []
while args:
    a = args.pop(0)
    if a == "--repo":
        repo = args.pop(0)
    elif a == "--tier":
        tier = args.pop(0)
    elif a == "--workers":
        workers = args.pop(0)
    else:
        ids.append(a)
seeded = os.path.join(ROOT, "seeded")
if not ids:
    ids = sorted(d for d in os.listdir(seeded) if os.path.isdir(os.path.join(seeded, d)))
env = dict(os.environ, VERIF_REPO=repo, VERIF_DIR=ROOT, GOFLAGS="-mod=mod", GOPROXY="off", GOSUMDB="off", GOTOOLCHAIN="local")
summary = []
for mid in ids:
    d = os.path.join(seeded, mid)
    prop = mid.split("-")[0]
    patch = os.path.join(d, "patch.diff")
    if subprocess.run(["git", "-C", repo, "diff", "--quiet"]).returncode != 0:
        print("repo dirty, abort"); sys.exit(2)
    if subprocess.run(["git", "-C", repo, "apply", patch]).returncode != 0:
        print(mid, "PATCH-DOES-NOT-APPLY"); summary.append((mid, "patch does not apply")); continue
    t0 = time.time()
    try:
        cmd = [os.path.join(ROOT, "bin", binname), "check", "--property", prop, "--tier", tier]
        if workers:
            cmd += ["--workers", workers]
        p = subprocess.run(cmd, cwd=ROOT, env=env,
                           stdout=subprocess.PIPE, stderr=subprocess.STDOUT, text=True, timeout=3600)
        out, rc = p.stdout, p.returncode
    except subprocess.TimeoutExpired as e:
        out, rc = (e.stdout or "") + "\nTIMEOUT", -1
    finally:
        subprocess.run(["git", "-C", repo, "checkout", "--", "."])
    wall = time.time() - t0
    det = sorted(set(re.findall(r"^  harness=(\S+) label=\"([^\"]*)\" (\w+):", out, re.M)))
    mism = len(re.findall(r"ENGINE-MISMATCH harness=", out))
    notes = ""
    try:
        notes = open(os.path.join(d, "notes.md")).read().strip()
    except OSError:
        pass
    meta = {
        "mutant": mid, "property": prop,
        "breaks": "property %s (see /verif/properties.jsonl)" % prop,
        "what_and_needs": notes,
        "origin": "written by an independent sub-agent that saw only the property text and a scratch worktree; confirmed here in a scratch worktree: demo_test.go passes on the unmodified tree, fails with patch.diff, and the repository's test suite still passes with it (tools/confirm_mutant.sh)",
        "check_run": "git -C %s apply patch.diff && ./bin/gosymex check --property %s --tier %s && git checkout -- ." % (repo, prop, tier),
        "check_exit": rc, "check_wall_s": round(wall, 1), "tier": tier,
        "detected": rc == 1,
        "detected_by": [{"harness": h, "label": l, "kind": k} for h, l, k in det],
        "candidates_not_reproduced_natively": mism,
    }
    json.dump(meta, open(os.path.join(d, "meta.json"), "w"), indent=1)
    print("%-8s exit=%s %5.0fs detected_by=%s" % (mid, rc, wall, ",".join(sorted(set(h for h, _, _ in det))) or "-"), flush=True)
    summary.append((mid, "detected" if rc == 1 else "MISSED(exit %s)" % rc))
print("\nSUMMARY:", json.dumps(summary))
