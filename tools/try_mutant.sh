#!/bin/bash
# usage: try_mutant.sh <patch.diff> <property> [tier]  -- applies the patch to /repo, runs the check, reverts.
patch=$1; prop=$2; tier=${3:-quick}
cd /repo || exit 2
if ! git diff --quiet; then echo "repo dirty"; exit 2; fi
git apply --3way "$patch" 2>/dev/null || git apply "$patch" || { echo "PATCH-DOES-NOT-APPLY"; git reset -q --hard HEAD; exit 3; }
git reset -q
cd /verif && ./bin/gosymex check --property $prop --tier $tier > /tmp/try_mutant.out 2>&1
rc=$?
git -C /repo reset -q --hard HEAD
grep -E "^VIOLATION|^KNOWN|ENGINE-MISMATCH|VACUOUS|^property|INCONCLUSIVE" /tmp/try_mutant.out | cut -c1-300 | head -12
grep -A1 "^VIOLATION" /tmp/try_mutant.out | grep "harness=" | cut -c1-250 | sort | uniq -c | head -8
echo "exit=$rc"
